//! Orchestrator / worker framework: sharded exhaustive enumeration in worker processes with
//! per-case watchdog, crash attribution, violation replay, known-findings matching and evidence.
use std::collections::BTreeMap;
use std::collections::BTreeSet;
use std::io::BufRead;
use std::io::BufReader;
use std::io::Write;
use std::panic::AssertUnwindSafe;
use std::process::Command;
use std::process::Stdio;
use std::sync::atomic::AtomicU64;
use std::sync::atomic::Ordering;
use std::time::Instant;

use serde_json::json;
use serde_json::Value;

#[derive(Clone, Copy, Debug, PartialEq, Eq)]
pub enum Tier {
    Quick,
    Thorough,
}

impl Tier {
    pub fn name(&self) -> &'static str {
        match self {
            Tier::Quick => "quick",
            Tier::Thorough => "thorough",
        }
    }
    pub fn parse(s: &str) -> Tier {
        match s {
            "quick" => Tier::Quick,
            "thorough" => Tier::Thorough,
            _ => panic!("unknown tier {s}"),
        }
    }
    pub fn quick(&self) -> bool {
        *self == Tier::Quick
    }
}

#[derive(Clone, Debug)]
pub struct Violation {
    pub idx: u64,
    pub case: String,
    pub msg: String,
    /// stable signature used for known-findings matching
    pub sig: String,
}

#[derive(Default, Debug)]
pub struct Acc {
    pub evaluations: u64,
    pub nontrivial: u64,
    pub states: u64,
    pub transitions: u64,
    pub traces: u64,
    pub counters: BTreeMap<String, u64>,
    pub outcomes: BTreeSet<String>,
    pub samples: Vec<(u64, String)>,
    pub violations: Vec<Violation>,
    pub total_violations: u64,
}

impl Acc {
    pub fn count(&mut self, key: &str, n: u64) {
        *self.counters.entry(key.to_string()).or_insert(0) += n;
    }
    pub fn outcome(&mut self, o: impl Into<String>) {
        if self.outcomes.len() < 64 {
            let _ = self.outcomes.insert(o.into());
        }
    }
    fn to_json(&self) -> Value {
        json!({
            "evaluations": self.evaluations,
            "nontrivial": self.nontrivial,
            "states": self.states,
            "transitions": self.transitions,
            "traces": self.traces,
            "counters": self.counters,
            "outcomes": self.outcomes.iter().collect::<Vec<_>>(),
            "samples": self.samples.iter().map(|(i, s)| json!([i, s])).collect::<Vec<_>>(),
            "violations": self.violations.iter().map(|v| json!({"idx": v.idx, "case": v.case, "msg": v.msg, "sig": v.sig})).collect::<Vec<_>>(),
            "total_violations": self.total_violations,
        })
    }
    fn merge_json(&mut self, v: &Value) {
        self.evaluations += v["evaluations"].as_u64().unwrap_or(0);
        self.nontrivial += v["nontrivial"].as_u64().unwrap_or(0);
        self.states += v["states"].as_u64().unwrap_or(0);
        self.transitions += v["transitions"].as_u64().unwrap_or(0);
        self.traces += v["traces"].as_u64().unwrap_or(0);
        self.total_violations += v["total_violations"].as_u64().unwrap_or(0);
        if let Some(c) = v["counters"].as_object() {
            for (k, n) in c {
                *self.counters.entry(k.clone()).or_insert(0) += n.as_u64().unwrap_or(0);
            }
        }
        if let Some(o) = v["outcomes"].as_array() {
            for x in o {
                if let Some(s) = x.as_str() {
                    self.outcome(s);
                }
            }
        }
        if let Some(s) = v["samples"].as_array() {
            for x in s {
                self.samples.push((
                    x[0].as_u64().unwrap_or(0),
                    x[1].as_str().unwrap_or("").to_string(),
                ));
            }
        }
        if let Some(vs) = v["violations"].as_array() {
            for x in vs {
                self.violations.push(Violation {
                    idx: x["idx"].as_u64().unwrap_or(0),
                    case: x["case"].as_str().unwrap_or("").to_string(),
                    msg: x["msg"].as_str().unwrap_or("").to_string(),
                    sig: x["sig"].as_str().unwrap_or("").to_string(),
                });
            }
        }
    }
}

static CURRENT_IDX: AtomicU64 = AtomicU64::new(u64::MAX);
static CASE_START_MS: AtomicU64 = AtomicU64::new(0);

fn now_ms(t0: &Instant) -> u64 {
    t0.elapsed().as_millis() as u64
}

/// Worker-side control object handed to the property code.
pub struct Ctl {
    pub tier: Tier,
    pub shard: u64,
    pub nshards: u64,
    pub start_at: u64,
    pub only: Option<u64>,
    pub careful: bool,
    pub acc: Acc,
    pub seed: u64,
    t0: Instant,
    next_progress: u64,
    /// number of cases seen by `case()` (wanted or not) = size of the enumerated space so far
    pub enumerated: u64,
    /// wall-clock budget for this worker (None: unlimited); when exceeded `want` returns false
    pub deadline_ms: Option<u64>,
    pub deadline_hit: bool,
    pub describe_only: bool,
}

impl Ctl {
    pub fn want(&mut self, idx: u64) -> bool {
        self.enumerated = self.enumerated.max(idx + 1);
        if let Some(o) = self.only {
            return idx == o;
        }
        if idx < self.start_at || idx % self.nshards != self.shard {
            return false;
        }
        if let Some(d) = self.deadline_ms {
            if self.deadline_hit || now_ms(&self.t0) > d {
                self.deadline_hit = true;
                return false;
            }
        }
        true
    }

    /// Run one case if it belongs to this shard. `desc` describes the case (called lazily).
    /// The body records into `Acc`; use `violation()` for property violations.
    pub fn case(
        &mut self,
        idx: u64,
        desc: &dyn Fn() -> String,
        body: &mut dyn FnMut(&mut CaseCtx),
    ) {
        if !self.want(idx) {
            return;
        }
        if self.describe_only {
            println!("{}", desc());
            return;
        }
        if self.careful {
            println!("C {idx}");
            let _ = std::io::stdout().flush();
        } else if idx >= self.next_progress {
            println!("P {idx}");
            self.next_progress = idx + 4096 * self.nshards;
        }
        CURRENT_IDX.store(idx, Ordering::SeqCst);
        CASE_START_MS.store(now_ms(&self.t0), Ordering::SeqCst);
        let mut cx = CaseCtx {
            idx,
            desc,
            acc: &mut self.acc,
            nontrivial: false,
            sig_suffix: String::new(),
            captured: None,
        };
        body(&mut cx);
        let nontrivial = cx.nontrivial;
        CURRENT_IDX.store(u64::MAX, Ordering::SeqCst);
        self.acc.evaluations += 1;
        if nontrivial {
            self.acc.nontrivial += 1;
        }
        // samples: first two of each shard plus sparse later ones
        let n = self.acc.evaluations;
        if self.acc.samples.len() < 2 || (n.is_power_of_two() && self.acc.samples.len() < 12) {
            self.acc.samples.push((idx, desc()));
        }
    }
}

pub struct CaseCtx<'a> {
    pub idx: u64,
    desc: &'a dyn Fn() -> String,
    pub acc: &'a mut Acc,
    pub nontrivial: bool,
    /// appended to every violation signature (e.g. the kind of configuration)
    pub sig_suffix: String,
    /// while `Some`, violations are collected here instead of being reported
    pub captured: Option<Vec<(String, String)>>,
}

impl CaseCtx<'_> {
    /// Run a judgement and return the violations it raises without reporting them (so that the
    /// caller can decide under which signature they are reported).
    pub fn capture(&mut self, f: impl FnOnce(&mut Self)) -> Vec<(String, String)> {
        let outer = self.captured.replace(vec![]);
        f(self);
        let got = self.captured.take().unwrap_or_default();
        self.captured = outer;
        got
    }
    pub fn violation(&mut self, sig: impl Into<String>, msg: impl Into<String>) {
        if let Some(c) = self.captured.as_mut() {
            c.push((sig.into(), msg.into()));
            return;
        }
        self.acc.total_violations += 1;
        let mut sig: String = sig.into();
        if !self.sig_suffix.is_empty() {
            sig = format!("{sig}:{}", self.sig_suffix);
        }
        *self.acc.counters.entry(format!("violation[{sig}]")).or_insert(0) += 1;
        let same = self.acc.violations.iter().filter(|v| v.sig == sig).count();
        if same < 3 && self.acc.violations.len() < 300 {
            self.acc.violations.push(Violation {
                idx: self.idx,
                case: (self.desc)(),
                msg: msg.into(),
                sig,
            });
        }
    }
    pub fn describe(&self) -> String {
        (self.desc)()
    }
}

thread_local! {
    static LAST_PANIC: std::cell::RefCell<String> = const { std::cell::RefCell::new(String::new()) };
}

pub fn install_panic_hook() {
    std::panic::set_hook(Box::new(|info| {
        let msg = if let Some(s) = info.payload().downcast_ref::<&str>() {
            s.to_string()
        } else if let Some(s) = info.payload().downcast_ref::<String>() {
            s.clone()
        } else {
            "<non-string panic>".to_string()
        };
        let loc = info
            .location()
            .map(|l| format!("{}:{}", l.file(), l.line()))
            .unwrap_or_default();
        LAST_PANIC.with(|p| *p.borrow_mut() = format!("{msg} @ {loc}"));
    }));
}

/// Run subject code; a panic is returned as Err(message @ location).
pub fn guard<T>(f: impl FnOnce() -> T) -> Result<T, String> {
    match std::panic::catch_unwind(AssertUnwindSafe(f)) {
        Ok(v) => Ok(v),
        Err(_) => Err(LAST_PANIC.with(|p| p.borrow().clone())),
    }
}

/// Stable signature of a panic: `panic@<file>:<start of the message>` (no line numbers, which
/// move whenever the file is edited).
pub fn panic_sig(msg: &str) -> String {
    let (text, loc) = match msg.rsplit_once(" @ ") {
        Some((t, l)) => (t, l),
        None => (msg, ""),
    };
    let file = loc.rsplit_once(':').map(|(f, _)| f).unwrap_or(loc);
    let file = file.replace("/repo/", "");
    let text: String = text
        .chars()
        .take(48)
        .map(|c| if c.is_ascii_alphanumeric() { c } else { '_' })
        .collect();
    format!("panic@{file}:{text}")
}

pub trait Property {
    fn id(&self) -> &'static str;
    fn level(&self) -> &'static str;
    /// per-case wall cap in ms (hang detection): the slowest legitimate cases (enumerating a
    /// clause-dense M9 model with restarts after every conflict and a nogood database that forgets
    /// everything) take about 10 s on an idle machine in the thorough tier, well under 1 s in quick
    fn case_cap_ms(&self, tier: Tier) -> u64 {
        if tier.quick() {
            30_000
        } else {
            180_000
        }
    }
    /// Enumerate all cases, calling `ctl.case` for each.
    fn run(&self, ctl: &mut Ctl);
    fn rule(&self, tier: Tier) -> String;
    fn assumptions(&self) -> Vec<String>;
    /// Extra coverage keys (bounds etc.)
    fn extra(&self, _tier: Tier) -> Value {
        json!({})
    }
    /// Things to build/prepare in the orchestrator before workers start (e.g. the CLI binary).
    fn prepare(&self, _tier: Tier) -> Result<(), String> {
        Ok(())
    }
    /// Replay the first violations twice in fresh processes and require identical signatures
    /// (false for properties whose violations are non-deterministic by nature).
    fn confirm_by_replay(&self) -> bool {
        true
    }
    /// wall budget in seconds for the whole check (None: run to completion)
    fn budget_s(&self, _tier: Tier) -> Option<u64> {
        None
    }
}

pub fn worker_main(prop: &dyn Property, args: &[String]) -> i32 {
    // args: tier shard nshards [--start n] [--only n] [--careful] [--deadline-ms n]
    let tier = Tier::parse(&args[0]);
    let shard: u64 = args[1].parse().unwrap();
    let nshards: u64 = args[2].parse().unwrap();
    let mut start_at = 0;
    let mut only = None;
    let mut careful = false;
    let mut deadline_ms = None;
    let mut i = 3;
    while i < args.len() {
        match args[i].as_str() {
            "--start" => {
                start_at = args[i + 1].parse().unwrap();
                i += 1
            }
            "--only" => {
                only = Some(args[i + 1].parse().unwrap());
                i += 1
            }
            "--careful" => careful = true,
            "--deadline-ms" => {
                deadline_ms = Some(args[i + 1].parse().unwrap());
                i += 1
            }
            _ => panic!("unknown worker arg {}", args[i]),
        }
        i += 1;
    }
    install_panic_hook();
    // die with the orchestrator: a worker whose parent is gone would otherwise keep spinning
    // in a hung case forever
    // SAFETY: plain prctl call with constant arguments.
    unsafe {
        let _ = libc::prctl(libc::PR_SET_PDEATHSIG, libc::SIGKILL);
    }
    let t0 = Instant::now();
    let cap = std::env::var("PV_CASE_CAP_MS").ok().and_then(|v| v.parse().ok()).unwrap_or_else(|| prop.case_cap_ms(tier));
    {
        let t0 = t0;
        let _ = std::thread::spawn(move || loop {
            std::thread::sleep(std::time::Duration::from_millis(100));
            let idx = CURRENT_IDX.load(Ordering::SeqCst);
            if idx != u64::MAX {
                let started = CASE_START_MS.load(Ordering::SeqCst);
                let now = now_ms(&t0);
                if now > started + cap && CURRENT_IDX.load(Ordering::SeqCst) == idx {
                    // never panic here (a closed pipe must not keep a hung worker alive)
                    let mut out = std::io::stdout();
                    let _ = writeln!(out, "H {idx}");
                    let _ = out.flush();
                    std::process::exit(3);
                }
            }
        });
    }
    let seed = std::env::var("VERIF_SEED")
        .ok()
        .and_then(|s| s.parse().ok())
        .unwrap_or(0);
    let mut ctl = Ctl {
        tier,
        shard,
        nshards,
        start_at,
        only,
        careful,
        acc: Acc::default(),
        seed,
        t0,
        next_progress: 0,
        enumerated: 0,
        deadline_ms,
        deadline_hit: false,
        describe_only: std::env::var("PV_DESCRIBE_ONLY").is_ok(),
    };
    let r = std::panic::catch_unwind(AssertUnwindSafe(|| prop.run(&mut ctl)));
    if r.is_err() {
        let msg = LAST_PANIC.with(|p| p.borrow().clone());
        println!(
            "E {} {}",
            CURRENT_IDX.load(Ordering::SeqCst),
            msg.replace('\n', " ")
        );
        return 2;
    }
    let mut s = ctl.acc.to_json();
    s["enumerated"] = json!(ctl.enumerated);
    s["deadline_hit"] = json!(ctl.deadline_hit);
    println!("S {}", s);
    0
}

struct WorkerResult {
    summary: Option<Value>,
    hang: Option<u64>,
    error: Option<String>,
    last_progress: u64,
    last_careful: Option<u64>,
    exit_ok: bool,
}

fn run_worker(id: &str, tier: Tier, shard: u64, nshards: u64, extra: &[String]) -> WorkerResult {
    let exe = std::env::current_exe().unwrap();
    let mut cmd = Command::new(exe);
    let _ = cmd
        .arg("worker")
        .arg(id)
        .arg(tier.name())
        .arg(shard.to_string())
        .arg(nshards.to_string())
        .args(extra)
        .stdout(Stdio::piped())
        .stderr(Stdio::null());
    let mut child = cmd.spawn().expect("spawn worker");
    let out = child.stdout.take().unwrap();
    let mut res = WorkerResult {
        summary: None,
        hang: None,
        error: None,
        last_progress: 0,
        last_careful: None,
        exit_ok: false,
    };
    for line in BufReader::new(out).lines() {
        let Ok(line) = line else { break };
        if let Some(rest) = line.strip_prefix("P ") {
            res.last_progress = rest.trim().parse().unwrap_or(res.last_progress);
        } else if let Some(rest) = line.strip_prefix("C ") {
            res.last_careful = rest.trim().parse().ok();
        } else if let Some(rest) = line.strip_prefix("H ") {
            res.hang = rest.trim().parse().ok();
        } else if let Some(rest) = line.strip_prefix("E ") {
            res.error = Some(rest.to_string());
        } else if let Some(rest) = line.strip_prefix("S ") {
            res.summary = serde_json::from_str(rest).ok();
        }
    }
    let status = child.wait().expect("wait worker");
    res.exit_ok = status.success();
    res
}

/// Run a single case in a fresh process and return its violations (sig, msg).
fn run_single(id: &str, tier: Tier, idx: u64) -> Result<Vec<(String, String)>, String> {
    let r = run_worker(
        id,
        tier,
        0,
        1,
        &["--only".to_string(), idx.to_string()],
    );
    if let Some(h) = r.hang {
        return Ok(vec![("hang".into(), format!("case {h} exceeded the wall cap"))]);
    }
    if let Some(e) = r.error {
        return Err(e);
    }
    match r.summary {
        Some(s) => Ok(s["violations"]
            .as_array()
            .map(|a| {
                a.iter()
                    .map(|v| {
                        (
                            v["sig"].as_str().unwrap_or("").to_string(),
                            v["msg"].as_str().unwrap_or("").to_string(),
                        )
                    })
                    .collect()
            })
            .unwrap_or_default()),
        None => Ok(vec![("crash".into(), "worker died without summary".into())]),
    }
}

fn describe_single(id: &str, tier: Tier, idx: u64) -> String {
    // A case that hangs cannot describe itself; enumerate with --describe instead.
    let exe = std::env::current_exe().unwrap();
    let out = Command::new(exe)
        .arg("describe")
        .arg(id)
        .arg(tier.name())
        .arg(idx.to_string())
        .output();
    match out {
        Ok(o) => String::from_utf8_lossy(&o.stdout)
            .lines()
            .next()
            .unwrap_or("")
            .to_string(),
        Err(_) => String::new(),
    }
}

#[derive(Debug, Clone)]
pub struct KnownFinding {
    pub property: String,
    pub sig_prefix: String,
    /// all of these must occur in the signature as well
    pub sig_contains: Vec<String>,
    pub what: String,
    pub status: String,
}

impl KnownFinding {
    pub fn matches(&self, property: &str, sig: &str) -> bool {
        self.property == property
            && self.status == "open"
            && sig.starts_with(&self.sig_prefix)
            && self.sig_contains.iter().all(|c| sig.contains(c.as_str()))
    }
}

pub fn load_known_findings() -> Vec<KnownFinding> {
    let path = "/verif/known_findings.json";
    let Ok(text) = std::fs::read_to_string(path) else {
        return vec![];
    };
    let v: Value = serde_json::from_str(&text).expect("known_findings.json must be valid JSON");
    let mut out = vec![];
    for f in v["findings"].as_array().cloned().unwrap_or_default() {
        out.push(KnownFinding {
            property: f["property"].as_str().unwrap_or("").to_string(),
            sig_prefix: f["sig"].as_str().unwrap_or("\u{0}").to_string(),
            sig_contains: f["sig_contains"]
                .as_array()
                .map(|a| a.iter().filter_map(|x| x.as_str().map(|s| s.to_string())).collect())
                .unwrap_or_default(),
            what: f["what"].as_str().unwrap_or("").to_string(),
            status: f["status"].as_str().unwrap_or("open").to_string(),
        });
    }
    out
}

pub fn orchestrate(prop: &dyn Property, tier: Tier) -> i32 {
    let t0 = Instant::now();
    let id = prop.id();
    if let Err(e) = prop.prepare(tier) {
        eprintln!("MACHINERY-ERROR: prepare failed: {e}");
        return 2;
    }
    let nshards: u64 = std::env::var("VERIF_JOBS")
        .ok()
        .and_then(|s| s.parse().ok())
        .unwrap_or_else(|| {
            std::thread::available_parallelism()
                .map(|n| n.get() as u64)
                .unwrap_or(8)
        });
    let deadline_ms = prop.budget_s(tier).map(|s| s * 1000);

    let mut handles = vec![];
    for shard in 0..nshards {
        let id = id.to_string();
        handles.push(std::thread::spawn(move || {
            // per-shard supervision loop
            let mut acc = Acc::default();
            let mut crashes = 0u64;
            let mut start = 0u64;
            let mut enumerated = 0u64;
            let mut deadline_hit = false;
            let mut machinery_error: Option<String> = None;
            loop {
                let mut extra = vec!["--start".to_string(), start.to_string()];
                if let Some(d) = deadline_ms {
                    extra.push("--deadline-ms".into());
                    extra.push(d.to_string());
                }
                let r = run_worker(&id, tier, shard, nshards, &extra);
                if let Some(e) = r.error {
                    machinery_error = Some(e);
                    break;
                }
                if let Some(s) = &r.summary {
                    acc.merge_json(s);
                    enumerated = enumerated.max(s["enumerated"].as_u64().unwrap_or(0));
                    deadline_hit |= s["deadline_hit"].as_bool().unwrap_or(false);
                    break;
                }
                // hang or crash
                crashes += 1;
                let culprit = if let Some(h) = r.hang {
                    Some((h, "hang"))
                } else {
                    // crash: find the culprit with a careful rerun from the last checkpoint
                    let extra = vec![
                        "--start".to_string(),
                        r.last_progress.max(start).to_string(),
                        "--careful".to_string(),
                    ];
                    let r2 = run_worker(&id, tier, shard, nshards, &extra);
                    if let Some(h) = r2.hang {
                        Some((h, "hang"))
                    } else if r2.summary.is_some() {
                        // did not reproduce: machinery problem
                        machinery_error =
                            Some("worker crashed but the crash did not reproduce".into());
                        None
                    } else {
                        r2.last_careful.map(|c| (c, "crash"))
                    }
                };
                match culprit {
                    Some((idx, kind)) => {
                        acc.total_violations += 1;
                        acc.violations.push(Violation {
                            idx,
                            case: describe_single(&id, tier, idx),
                            msg: format!("{kind}: the case did not complete ({kind} of the worker process)"),
                            sig: kind.to_string(),
                        });
                        start = idx + 1;
                        if crashes > if tier.quick() { 3 } else { 25 } {
                            // every crash is a recorded violation; give up on the rest of this
                            // shard (the run is reported as not exhaustive)
                            break;
                        }
                    }
                    None => {
                        if machinery_error.is_none() {
                            machinery_error = Some("could not attribute a worker crash".into());
                        }
                        break;
                    }
                }
            }
            (acc, crashes, enumerated, deadline_hit, machinery_error)
        }));
    }
    let mut acc = Acc::default();
    let mut crashes = 0;
    let mut enumerated = 0;
    let mut deadline_hit = false;
    for h in handles {
        let (a, c, e, d, err) = h.join().expect("supervisor thread");
        if let Some(err) = err {
            eprintln!("MACHINERY-ERROR: {err}");
            return 2;
        }
        acc.merge_json(&a.to_json());
        crashes += c;
        enumerated = enumerated.max(e);
        deadline_hit |= d;
    }
    acc.samples.sort();
    acc.violations.sort_by_key(|v| v.idx);

    // classify violations
    let known = load_known_findings();
    let mut known_hits: BTreeMap<String, u64> = BTreeMap::new();
    let mut unknown: Vec<&Violation> = vec![];
    for v in &acc.violations {
        let hit = known.iter().find(|k| k.matches(id, &v.sig));
        match hit {
            Some(k) => *known_hits.entry(format!("{} [{}]", k.what, k.sig_prefix)).or_insert(0) += 1,
            None => unknown.push(v),
        }
    }
    // If more violations were counted than stored we cannot classify the rest: treat the
    // overflow as unknown unless every stored one was known and nothing else was stored.
    let overflow = acc.total_violations.saturating_sub(acc.violations.len() as u64);

    // confirm determinism of the first unknown violations by replaying them twice
    let mut exit = 0;
    let dir = format!("/verif/replays/{id}");
    let _ = std::fs::create_dir_all(&dir);
    for (n, v) in unknown.iter().enumerate() {
        if n < 2 && v.sig != "hang" && v.sig != "crash" && prop.confirm_by_replay() {
            let a = run_single(id, tier, v.idx);
            let b = run_single(id, tier, v.idx);
            match (a, b) {
                (Ok(a), Ok(b)) => {
                    // compare the signatures (messages may contain volatile details such as
                    // thread ids of a crashed child process)
                    let a: Vec<String> = a.into_iter().map(|x| x.0).collect();
                    let b: Vec<String> = b.into_iter().map(|x| x.0).collect();
                    if a != b || a.is_empty() {
                        eprintln!(
                            "MACHINERY-ERROR: violation of case {} does not replay deterministically: {:?} vs {:?}",
                            v.idx, a, b
                        );
                        return 2;
                    }
                }
                (Err(e), _) | (_, Err(e)) => {
                    eprintln!("MACHINERY-ERROR: replay failed: {e}");
                    return 2;
                }
            }
        }
        let same_before = unknown[..n].iter().filter(|w| w.sig == v.sig).count();
        if same_before < 2 && n < 4000 {
            let path = format!("{dir}/{}_{}_{n}.json", tier.name(), v.idx);
            let body = json!({
                "property": id, "tier": tier.name(), "idx": v.idx, "case": v.case,
                "message": v.msg, "sig": v.sig,
                "replay": format!("cd /verif && ./check {id} {} --replay {path}", tier.name()),
            });
            let _ = std::fs::write(&path, serde_json::to_string_pretty(&body).unwrap());
            println!("VIOLATION property={id} replay={path}");
            println!("  sig={} case={} :: {}", v.sig, v.case, v.msg);
        }
        exit = 1;
    }
    // Violations beyond the stored ones (<=3 per signature and worker) are accounted for through
    // the per-signature counters: a signature is known iff it matches a known finding.
    let _ = overflow;
    for (k, n) in &acc.counters {
        if let Some(sig) = k.strip_prefix("violation[").and_then(|r| r.strip_suffix(']')) {
            let is_known = known.iter().any(|f| f.matches(id, sig));
            println!("  {} x{n} {sig}", if is_known { "known" } else { "VIOLATION-SIG" });
            if !is_known {
                exit = 1;
            }
        }
    }
    for (k, n) in &known_hits {
        println!("KNOWN-FINDING: property={id} {k} ({n} cases)");
    }

    let exhaustive = !deadline_hit && crashes == 0;
    let samples: Vec<Value> = {
        let mut s: Vec<&(u64, String)> = acc.samples.iter().collect();
        if s.len() > 12 {
            let step = s.len() / 12 + 1;
            s = s.into_iter().step_by(step).collect();
        }
        s.iter()
            .map(|(i, d)| json!({"idx": i, "case": d}))
            .collect()
    };
    let mut coverage = json!({
        "evaluations": acc.evaluations,
        "distinct_nontrivial": acc.nontrivial,
        "rule": prop.rule(tier),
        "samples": samples,
        "exhaustive": exhaustive,
        "enumerated_space": enumerated,
        "budget_cap_hit": deadline_hit,
        "worker_crashes_or_hangs": crashes,
        "counters": acc.counters,
        "distinct_outcomes": acc.outcomes.len(),
        "outcomes": acc.outcomes.iter().collect::<Vec<_>>(),
        "known_findings_hit": known_hits,
    });
    if acc.states > 0 {
        coverage["states"] = json!(acc.states);
        coverage["transitions"] = json!(acc.transitions.max(1));
        coverage["traces_validated_against_impl"] = json!(acc.traces);
    }
    if let Some(o) = prop.extra(tier).as_object() {
        for (k, v) in o {
            coverage[k] = v.clone();
        }
    }
    let seed: i64 = std::env::var("VERIF_SEED")
        .ok()
        .and_then(|s| s.parse().ok())
        .unwrap_or(0);
    let evidence = json!({
        "property_id": id,
        "tier": tier.name(),
        "seed": seed,
        "level": prop.level(),
        "coverage": coverage,
        "assumptions": prop.assumptions(),
        "wall_s": t0.elapsed().as_secs_f64(),
        "violations": acc.total_violations,
    });
    let _ = std::fs::create_dir_all("/verif/evidence");
    std::fs::write(
        format!("/verif/evidence/{id}.json"),
        serde_json::to_string_pretty(&evidence).unwrap(),
    )
    .expect("write evidence");
    println!(
        "{id} {}: evaluations={} nontrivial={} states={} transitions={} violations={} (known {}) outcomes={} exhaustive={} wall={:.1}s",
        tier.name(),
        acc.evaluations,
        acc.nontrivial,
        acc.states,
        acc.transitions,
        acc.total_violations,
        known_hits.values().sum::<u64>(),
        acc.outcomes.len(),
        exhaustive,
        t0.elapsed().as_secs_f64()
    );
    for (k, v) in &acc.counters {
        println!("  {k}={v}");
    }
    exit
}
