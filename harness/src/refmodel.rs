//! The reference model: a deliberately boring description of a constraint model with a
//! brute-force evaluator. Shares no code with the solver; all arithmetic is i128.
use std::fmt;

#[derive(Clone, Copy, Debug, PartialEq, Eq, Hash, PartialOrd, Ord)]
pub enum VarKind {
    /// created with `new_bounded_integer(lb, ub)`
    Interval,
    /// created with `new_sparse_integer(values)`
    Sparse,
    /// created with `new_literal()`; domain is {0,1}
    Lit,
}

#[derive(Clone, Debug, PartialEq, Eq, Hash)]
pub struct VarDecl {
    pub values: Vec<i32>,
    pub kind: VarKind,
    /// A literal created with `new_literal_for_predicate(p)`: its value is 1 iff `p` holds
    /// (`p` is over an earlier variable). Assignments that break the definition are not part of
    /// the declared space.
    pub def: Option<Pred>,
    /// The value list as it is handed to `new_(named_)sparse_integer` when it differs from the
    /// sorted, duplicate-free `values` (unsorted lists, repeated values); `named`: use the named
    /// constructor.
    pub raw: Option<(Vec<i32>, bool)>,
}

impl VarDecl {
    pub fn interval(lb: i32, ub: i32) -> Self {
        VarDecl {
            values: (lb..=ub).collect(),
            kind: VarKind::Interval,
            def: None,
            raw: None,
        }
    }
    pub fn sparse(values: &[i32]) -> Self {
        let mut v = values.to_vec();
        v.sort();
        v.dedup();
        VarDecl {
            values: v,
            kind: VarKind::Sparse,
            def: None,
            raw: None,
        }
    }
    pub fn lit() -> Self {
        VarDecl {
            values: vec![0, 1],
            kind: VarKind::Lit,
            def: None,
            raw: None,
        }
    }
    /// The solver's constant literal (`Solver::get_true_literal`): a literal variable whose only
    /// value is 1; its negative reference is `get_false_literal`.
    pub fn const_true() -> Self {
        VarDecl {
            values: vec![1],
            kind: VarKind::Lit,
            def: None,
            raw: None,
        }
    }
    /// A sparse variable created from the given list as it is (order and repetitions kept).
    pub fn sparse_raw(list: &[i32], named: bool) -> Self {
        let mut d = VarDecl::sparse(list);
        d.raw = Some((list.to_vec(), named));
        d
    }
    /// A literal defined by a predicate over an earlier variable.
    pub fn lit_for(p: Pred) -> Self {
        VarDecl {
            values: vec![0, 1],
            kind: VarKind::Lit,
            def: Some(p),
            raw: None,
        }
    }
    /// Shape given as sorted values; contiguous => interval, otherwise sparse.
    pub fn from_values(values: &[i32]) -> Self {
        let mut v = values.to_vec();
        v.sort();
        v.dedup();
        let contiguous = v.windows(2).all(|w| w[1] == w[0] + 1);
        VarDecl {
            values: v,
            kind: if contiguous {
                VarKind::Interval
            } else {
                VarKind::Sparse
            },
            def: None,
            raw: None,
        }
    }
    pub fn lb(&self) -> i32 {
        self.values[0]
    }
    pub fn ub(&self) -> i32 {
        *self.values.last().unwrap()
    }
}

/// `a * x_var + b`
#[derive(Clone, Copy, Debug, PartialEq, Eq, Hash, PartialOrd, Ord)]
pub struct View {
    pub var: usize,
    pub a: i32,
    pub b: i32,
}

impl View {
    pub fn id(var: usize) -> Self {
        View { var, a: 1, b: 0 }
    }
    pub fn new(var: usize, a: i32, b: i32) -> Self {
        View { var, a, b }
    }
    pub fn is_identity(&self) -> bool {
        self.a == 1 && self.b == 0
    }
    pub fn eval(&self, asg: &[i32]) -> i128 {
        self.a as i128 * asg[self.var] as i128 + self.b as i128
    }
    pub fn eval_val(&self, v: i32) -> i128 {
        self.a as i128 * v as i128 + self.b as i128
    }
    pub fn scaled(&self, s: i32) -> View {
        View {
            var: self.var,
            a: self.a * s,
            b: self.b * s,
        }
    }
}

impl fmt::Display for View {
    fn fmt(&self, f: &mut fmt::Formatter<'_>) -> fmt::Result {
        if self.is_identity() {
            write!(f, "x{}", self.var)
        } else if self.b == 0 {
            write!(f, "{}*x{}", self.a, self.var)
        } else {
            write!(f, "({}*x{}{:+})", self.a, self.var, self.b)
        }
    }
}

#[derive(Clone, Copy, Debug, PartialEq, Eq, Hash, PartialOrd, Ord)]
pub enum PredKind {
    Ge,
    Le,
    Eq,
    Ne,
}

#[derive(Clone, Copy, Debug, PartialEq, Eq, Hash, PartialOrd, Ord)]
pub struct Pred {
    pub var: usize,
    pub kind: PredKind,
    pub val: i32,
}

impl Pred {
    pub fn new(var: usize, kind: PredKind, val: i32) -> Self {
        Pred { var, kind, val }
    }
    pub fn holds_val(&self, v: i32) -> bool {
        match self.kind {
            PredKind::Ge => v >= self.val,
            PredKind::Le => v <= self.val,
            PredKind::Eq => v == self.val,
            PredKind::Ne => v != self.val,
        }
    }
    pub fn holds(&self, asg: &[i32]) -> bool {
        self.holds_val(asg[self.var])
    }
    pub fn negate(&self) -> Pred {
        match self.kind {
            PredKind::Ge => Pred::new(self.var, PredKind::Le, self.val.wrapping_sub(1)),
            PredKind::Le => Pred::new(self.var, PredKind::Ge, self.val.wrapping_add(1)),
            PredKind::Eq => Pred::new(self.var, PredKind::Ne, self.val),
            PredKind::Ne => Pred::new(self.var, PredKind::Eq, self.val),
        }
    }
}

impl fmt::Display for Pred {
    fn fmt(&self, f: &mut fmt::Formatter<'_>) -> fmt::Result {
        let op = match self.kind {
            PredKind::Ge => ">=",
            PredKind::Le => "<=",
            PredKind::Eq => "==",
            PredKind::Ne => "!=",
        };
        write!(f, "[x{}{}{}]", self.var, op, self.val)
    }
}

/// A literal over a variable of kind `Lit`.
#[derive(Clone, Copy, Debug, PartialEq, Eq, Hash, PartialOrd, Ord)]
pub struct Lit {
    pub var: usize,
    pub pos: bool,
}

impl Lit {
    pub fn p(var: usize) -> Lit {
        Lit { var, pos: true }
    }
    pub fn n(var: usize) -> Lit {
        Lit { var, pos: false }
    }
    pub fn holds(&self, asg: &[i32]) -> bool {
        (asg[self.var] == 1) == self.pos
    }
}

impl fmt::Display for Lit {
    fn fmt(&self, f: &mut fmt::Formatter<'_>) -> fmt::Result {
        write!(f, "{}l{}", if self.pos { "" } else { "!" }, self.var)
    }
}

#[derive(Clone, Copy, Debug, PartialEq, Eq, Hash, PartialOrd, Ord)]
pub struct CumOpts {
    pub holes: bool,
    /// 0 naive, 1 bigstep, 2 pointwise
    pub explanation: u8,
    pub sequence: bool,
    /// 0..6 in declaration order of CumulativePropagationMethod
    pub method: u8,
    pub incremental_backtracking: bool,
}

impl CumOpts {
    pub fn all() -> Vec<CumOpts> {
        let mut v = vec![];
        for method in 0..6 {
            for explanation in 0..3 {
                for holes in [false, true] {
                    for sequence in [false, true] {
                        for incremental_backtracking in [false, true] {
                            v.push(CumOpts {
                                holes,
                                explanation,
                                sequence,
                                method,
                                incremental_backtracking,
                            })
                        }
                    }
                }
            }
        }
        v
    }
    pub fn default_opts() -> CumOpts {
        CumOpts {
            holes: false,
            explanation: 1,
            sequence: false,
            method: 4,
            incremental_backtracking: false,
        }
    }
}

#[derive(Clone, Debug, PartialEq, Eq, Hash)]
pub enum Con {
    LinLe(Vec<View>, i32),
    LinEq(Vec<View>, i32),
    LinNe(Vec<View>, i32),
    BinEq(View, View),
    BinNe(View, View),
    BinLe(View, View),
    BinLt(View, View),
    Plus(View, View, View),
    Times(View, View, View),
    Div(View, View, View),
    Abs(View, View),
    Max(Vec<View>, View),
    Min(Vec<View>, View),
    Element {
        index: View,
        array: Vec<View>,
        rhs: View,
    },
    AllDiff(Vec<View>),
    /// `Solver::add_clause` over arbitrary predicates
    PredClause(Vec<Pred>),
    /// `Solver::add_clause` over predicates on views: (view, kind, value) = `[a*x+b kind value]`
    ViewClause(Vec<(View, PredKind, i32)>),
    /// `constraints::clause`
    LitClause(Vec<Lit>),
    /// `constraints::conjunction`
    LitConj(Vec<Lit>),
    BoolLinLe(Vec<i32>, Vec<Lit>, i32),
    /// sum w_i * l_i == x_rhs
    BoolLinEq(Vec<i32>, Vec<Lit>, usize),
    Cumulative {
        starts: Vec<View>,
        durations: Vec<i32>,
        usages: Vec<i32>,
        cap: i32,
        opts: CumOpts,
    },
    /// `.implied_by(lit)`: lit -> c
    Implied(Lit, Box<Con>),
    /// `.reify(lit)`: lit <-> c
    Reified(Lit, Box<Con>),
    /// `c.negation()` posted
    Neg(Box<Con>),
}

fn lin(terms: &[View], asg: &[i32]) -> i128 {
    terms.iter().map(|t| t.eval(asg)).sum()
}

/// Truncating division, defined only for d != 0.
fn tdiv(n: i128, d: i128) -> i128 {
    n / d
}

impl Con {
    pub fn holds(&self, asg: &[i32]) -> bool {
        match self {
            Con::LinLe(t, r) => lin(t, asg) <= *r as i128,
            Con::LinEq(t, r) => lin(t, asg) == *r as i128,
            Con::LinNe(t, r) => lin(t, asg) != *r as i128,
            Con::BinEq(a, b) => a.eval(asg) == b.eval(asg),
            Con::BinNe(a, b) => a.eval(asg) != b.eval(asg),
            Con::BinLe(a, b) => a.eval(asg) <= b.eval(asg),
            Con::BinLt(a, b) => a.eval(asg) < b.eval(asg),
            Con::Plus(a, b, c) => a.eval(asg) + b.eval(asg) == c.eval(asg),
            Con::Times(a, b, c) => a.eval(asg) * b.eval(asg) == c.eval(asg),
            Con::Div(n, d, r) => {
                let dv = d.eval(asg);
                dv != 0 && tdiv(n.eval(asg), dv) == r.eval(asg)
            }
            Con::Abs(s, a) => s.eval(asg).abs() == a.eval(asg),
            Con::Max(arr, r) => arr.iter().map(|v| v.eval(asg)).max() == Some(r.eval(asg)),
            Con::Min(arr, r) => arr.iter().map(|v| v.eval(asg)).min() == Some(r.eval(asg)),
            Con::Element { index, array, rhs } => {
                let i = index.eval(asg);
                i >= 0 && (i as usize) < array.len() && array[i as usize].eval(asg) == rhs.eval(asg)
            }
            Con::AllDiff(vs) => {
                for i in 0..vs.len() {
                    for j in i + 1..vs.len() {
                        if vs[i].eval(asg) == vs[j].eval(asg) {
                            return false;
                        }
                    }
                }
                true
            }
            Con::PredClause(ps) => ps.iter().any(|p| p.holds(asg)),
            Con::ViewClause(ps) => ps.iter().any(|(v, k, c)| {
                let e = v.eval(asg);
                let c = *c as i128;
                match k {
                    PredKind::Ge => e >= c,
                    PredKind::Le => e <= c,
                    PredKind::Eq => e == c,
                    PredKind::Ne => e != c,
                }
            }),
            Con::LitClause(ls) => ls.iter().any(|l| l.holds(asg)),
            Con::LitConj(ls) => ls.iter().all(|l| l.holds(asg)),
            Con::BoolLinLe(w, ls, r) => {
                let s: i128 = w
                    .iter()
                    .zip(ls)
                    .map(|(w, l)| if l.holds(asg) { *w as i128 } else { 0 })
                    .sum();
                s <= *r as i128
            }
            Con::BoolLinEq(w, ls, rv) => {
                let s: i128 = w
                    .iter()
                    .zip(ls)
                    .map(|(w, l)| if l.holds(asg) { *w as i128 } else { 0 })
                    .sum();
                s == asg[*rv] as i128
            }
            Con::Cumulative {
                starts,
                durations,
                usages,
                cap,
                ..
            } => {
                // time-point semantics: at every time point t, the usages of the tasks with
                // s <= t < s + d sum to at most the capacity.
                let s: Vec<i128> = starts.iter().map(|v| v.eval(asg)).collect();
                let mut points: Vec<i128> = vec![];
                for (i, si) in s.iter().enumerate() {
                    if durations[i] > 0 {
                        points.push(*si);
                    }
                }
                for t in points {
                    let mut load: i128 = 0;
                    for i in 0..s.len() {
                        if s[i] <= t && t < s[i] + durations[i] as i128 {
                            load += usages[i] as i128;
                        }
                    }
                    if load > *cap as i128 {
                        return false;
                    }
                }
                true
            }
            Con::Implied(l, c) => !l.holds(asg) || c.holds(asg),
            Con::Reified(l, c) => l.holds(asg) == c.holds(asg),
            Con::Neg(c) => !c.holds(asg),
        }
    }

    /// Can `negation()` be called on the library constraint built for this?
    pub fn negatable(&self) -> bool {
        match self {
            Con::LinLe(..)
            | Con::LinEq(..)
            | Con::LinNe(..)
            | Con::BinEq(..)
            | Con::BinNe(..)
            | Con::BinLe(..)
            | Con::BinLt(..)
            | Con::LitClause(..)
            | Con::LitConj(..) => true,
            Con::Neg(c) => c.negatable(),
            _ => false,
        }
    }

    /// Constraints which are posted as clauses and therefore cannot carry a tag.
    pub fn clausal(&self) -> bool {
        match self {
            Con::PredClause(..) | Con::ViewClause(..) | Con::LitClause(..) | Con::LitConj(..) => true,
            Con::Implied(_, c) | Con::Reified(_, c) | Con::Neg(c) => c.clausal(),
            _ => false,
        }
    }

    pub fn views(&self) -> Vec<View> {
        match self {
            Con::LinLe(t, _) | Con::LinEq(t, _) | Con::LinNe(t, _) | Con::AllDiff(t) => t.clone(),
            Con::BinEq(a, b) | Con::BinNe(a, b) | Con::BinLe(a, b) | Con::BinLt(a, b) => {
                vec![*a, *b]
            }
            Con::Abs(a, b) => vec![*a, *b],
            Con::Plus(a, b, c) | Con::Times(a, b, c) | Con::Div(a, b, c) => vec![*a, *b, *c],
            Con::Max(arr, r) | Con::Min(arr, r) => {
                let mut v = arr.clone();
                v.push(*r);
                v
            }
            Con::Element { index, array, rhs } => {
                let mut v = vec![*index];
                v.extend(array.iter().copied());
                v.push(*rhs);
                v
            }
            Con::PredClause(ps) => ps.iter().map(|p| View::id(p.var)).collect(),
            Con::ViewClause(ps) => ps.iter().map(|(v, _, _)| *v).collect(),
            Con::LitClause(ls) | Con::LitConj(ls) => ls.iter().map(|l| View::id(l.var)).collect(),
            Con::BoolLinLe(_, ls, _) => ls.iter().map(|l| View::id(l.var)).collect(),
            Con::BoolLinEq(_, ls, r) => {
                let mut v: Vec<View> = ls.iter().map(|l| View::id(l.var)).collect();
                v.push(View::id(*r));
                v
            }
            Con::Cumulative { starts, .. } => starts.clone(),
            Con::Implied(l, c) | Con::Reified(l, c) => {
                let mut v = c.views();
                v.push(View::id(l.var));
                v
            }
            Con::Neg(c) => c.views(),
        }
    }

    pub fn vars(&self) -> Vec<usize> {
        let mut v: Vec<usize> = self.views().iter().map(|v| v.var).collect();
        v.sort();
        v.dedup();
        v
    }

    pub fn kind_name(&self) -> &'static str {
        match self {
            Con::LinLe(..) => "lin_le",
            Con::LinEq(..) => "lin_eq",
            Con::LinNe(..) => "lin_ne",
            Con::BinEq(..) => "bin_eq",
            Con::BinNe(..) => "bin_ne",
            Con::BinLe(..) => "bin_le",
            Con::BinLt(..) => "bin_lt",
            Con::Plus(..) => "plus",
            Con::Times(..) => "times",
            Con::Div(..) => "div",
            Con::Abs(..) => "abs",
            Con::Max(..) => "max",
            Con::Min(..) => "min",
            Con::Element { .. } => "element",
            Con::AllDiff(..) => "all_different",
            Con::PredClause(..) => "add_clause",
            Con::ViewClause(..) => "add_clause_views",
            Con::LitClause(..) => "clause",
            Con::LitConj(..) => "conjunction",
            Con::BoolLinLe(..) => "bool_lin_le",
            Con::BoolLinEq(..) => "bool_lin_eq",
            Con::Cumulative { .. } => "cumulative",
            Con::Implied(..) => "implied",
            Con::Reified(..) => "reified",
            Con::Neg(..) => "negation",
        }
    }
}

fn fmt_views(v: &[View]) -> String {
    v.iter()
        .map(|x| x.to_string())
        .collect::<Vec<_>>()
        .join(",")
}

impl fmt::Display for Con {
    fn fmt(&self, f: &mut fmt::Formatter<'_>) -> fmt::Result {
        match self {
            Con::LinLe(t, r) => write!(f, "sum[{}]<={}", fmt_views(t), r),
            Con::LinEq(t, r) => write!(f, "sum[{}]=={}", fmt_views(t), r),
            Con::LinNe(t, r) => write!(f, "sum[{}]!={}", fmt_views(t), r),
            Con::BinEq(a, b) => write!(f, "{}=={}", a, b),
            Con::BinNe(a, b) => write!(f, "{}!={}", a, b),
            Con::BinLe(a, b) => write!(f, "{}<={}", a, b),
            Con::BinLt(a, b) => write!(f, "{}<{}", a, b),
            Con::Plus(a, b, c) => write!(f, "{}+{}=={}", a, b, c),
            Con::Times(a, b, c) => write!(f, "{}*{}=={}", a, b, c),
            Con::Div(a, b, c) => write!(f, "{}/{}=={}", a, b, c),
            Con::Abs(a, b) => write!(f, "|{}|=={}", a, b),
            Con::Max(a, r) => write!(f, "max[{}]=={}", fmt_views(a), r),
            Con::Min(a, r) => write!(f, "min[{}]=={}", fmt_views(a), r),
            Con::Element { index, array, rhs } => {
                write!(f, "[{}][{}]=={}", fmt_views(array), index, rhs)
            }
            Con::AllDiff(v) => write!(f, "alldiff[{}]", fmt_views(v)),
            Con::PredClause(ps) => write!(
                f,
                "clause({})",
                ps.iter()
                    .map(|p| p.to_string())
                    .collect::<Vec<_>>()
                    .join("|")
            ),
            Con::ViewClause(ps) => write!(
                f,
                "clause({})",
                ps.iter()
                    .map(|(v, k, c)| {
                        let op = match k {
                            PredKind::Ge => ">=",
                            PredKind::Le => "<=",
                            PredKind::Eq => "==",
                            PredKind::Ne => "!=",
                        };
                        format!("[{v}{op}{c}]")
                    })
                    .collect::<Vec<_>>()
                    .join("|")
            ),
            Con::LitClause(ls) => write!(
                f,
                "litclause({})",
                ls.iter()
                    .map(|p| p.to_string())
                    .collect::<Vec<_>>()
                    .join("|")
            ),
            Con::LitConj(ls) => write!(
                f,
                "litconj({})",
                ls.iter()
                    .map(|p| p.to_string())
                    .collect::<Vec<_>>()
                    .join("&")
            ),
            Con::BoolLinLe(w, ls, r) => write!(
                f,
                "boollin({})<={}",
                w.iter()
                    .zip(ls)
                    .map(|(w, l)| format!("{}*{}", w, l))
                    .collect::<Vec<_>>()
                    .join("+"),
                r
            ),
            Con::BoolLinEq(w, ls, r) => write!(
                f,
                "boollin({})==x{}",
                w.iter()
                    .zip(ls)
                    .map(|(w, l)| format!("{}*{}", w, l))
                    .collect::<Vec<_>>()
                    .join("+"),
                r
            ),
            Con::Cumulative {
                starts,
                durations,
                usages,
                cap,
                opts,
            } => write!(
                f,
                "cumulative(s=[{}],d={:?},u={:?},cap={},opts=m{}e{}h{}s{}b{})",
                fmt_views(starts),
                durations,
                usages,
                cap,
                opts.method,
                opts.explanation,
                opts.holes as u8,
                opts.sequence as u8,
                opts.incremental_backtracking as u8
            ),
            Con::Implied(l, c) => write!(f, "{}->({})", l, c),
            Con::Reified(l, c) => write!(f, "{}<->({})", l, c),
            Con::Neg(c) => write!(f, "not({})", c),
        }
    }
}

#[derive(Clone, Debug, PartialEq, Eq, Hash, Default)]
pub struct Model {
    pub vars: Vec<VarDecl>,
    pub cons: Vec<Con>,
}

impl Model {
    pub fn new(vars: Vec<VarDecl>, cons: Vec<Con>) -> Self {
        Model { vars, cons }
    }

    pub fn space_size(&self) -> u64 {
        self.vars.iter().map(|v| v.values.len() as u64).product()
    }

    pub fn holds(&self, asg: &[i32]) -> bool {
        self.cons.iter().all(|c| c.holds(asg))
    }

    /// Calls `f` on every assignment over the declared domains.
    pub fn for_each_assignment(&self, mut f: impl FnMut(&[i32])) {
        for_each_assignment(&self.vars, &mut f)
    }

    /// All solutions, in lexicographic order of the declared domains.
    pub fn solutions(&self) -> Vec<Vec<i32>> {
        let mut out = vec![];
        self.for_each_assignment(|a| {
            if self.holds(a) {
                out.push(a.to_vec())
            }
        });
        out
    }

    pub fn solutions_with(&self, extra: impl Fn(&[i32]) -> bool) -> Vec<Vec<i32>> {
        let mut out = vec![];
        self.for_each_assignment(|a| {
            if self.holds(a) && extra(a) {
                out.push(a.to_vec())
            }
        });
        out
    }

    pub fn describe(&self) -> String {
        let vars = self
            .vars
            .iter()
            .enumerate()
            .map(|(i, v)| {
                let k = match v.kind {
                    VarKind::Interval => format!("[{}..{}]", v.lb(), v.ub()),
                    VarKind::Sparse => match &v.raw {
                        Some((list, named)) => format!("sparse{}{:?}", if *named { "-named" } else { "" }, list),
                        None => format!("{:?}", v.values),
                    },
                    VarKind::Lit => match v.def {
                        Some(p) => format!("lit({p})"),
                        None if v.values == [1] => "true-lit".to_string(),
                        None => "lit".to_string(),
                    },
                };
                format!("x{}:{}", i, k)
            })
            .collect::<Vec<_>>()
            .join(" ");
        let cons = self
            .cons
            .iter()
            .map(|c| c.to_string())
            .collect::<Vec<_>>()
            .join(" ; ");
        format!("{} | {}", vars, cons)
    }
}

pub fn for_each_assignment(vars: &[VarDecl], f: &mut impl FnMut(&[i32])) {
    let n = vars.len();
    if vars.iter().any(|v| v.values.is_empty()) {
        return;
    }
    let mut idx = vec![0usize; n];
    let mut asg: Vec<i32> = vars.iter().map(|v| v.values[0]).collect();
    let defined: Vec<(usize, Pred)> = vars.iter().enumerate().filter_map(|(i, v)| v.def.map(|p| (i, p))).collect();
    loop {
        if defined.iter().all(|(i, p)| (asg[*i] == 1) == p.holds(&asg)) {
            f(&asg);
        }
        // increment (last variable fastest)
        let mut k = n;
        loop {
            if k == 0 {
                return;
            }
            k -= 1;
            idx[k] += 1;
            if idx[k] < vars[k].values.len() {
                asg[k] = vars[k].values[idx[k]];
                break;
            } else {
                idx[k] = 0;
                asg[k] = vars[k].values[0];
            }
        }
    }
}

/// Self-checks of the reference model (metamorphic identities); panics on failure so that an
/// oracle bug shows up as a machinery error, never as a verdict.
pub fn self_check() {
    let vars = vec![
        VarDecl::from_values(&[-1, 0, 2]),
        VarDecl::interval(0, 2),
        VarDecl::lit(),
    ];
    let c = Con::LinLe(vec![View::new(0, 2, 0), View::new(1, -1, 1)], 1);
    let l = Lit::p(2);
    let reif = Model::new(vars.clone(), vec![Con::Reified(l, Box::new(c.clone()))]);
    let two = Model::new(
        vars.clone(),
        vec![
            Con::Implied(l, Box::new(c.clone())),
            Con::Implied(Lit::n(2), Box::new(Con::Neg(Box::new(c.clone())))),
        ],
    );
    assert_eq!(reif.solutions(), two.solutions(), "reified != two half-reified");
    let plain = Model::new(vars.clone(), vec![c.clone()]);
    let neg = Model::new(vars.clone(), vec![Con::Neg(Box::new(c.clone()))]);
    assert_eq!(
        plain.solutions().len() + neg.solutions().len(),
        plain.space_size() as usize
    );
    // truncating division
    assert_eq!(tdiv(-7, 2), -3);
    assert_eq!(tdiv(7, -2), -3);
    // cumulative
    let cv = vec![VarDecl::interval(0, 2), VarDecl::interval(0, 2)];
    let cum = Model::new(
        cv,
        vec![Con::Cumulative {
            starts: vec![View::id(0), View::id(1)],
            durations: vec![2, 1],
            usages: vec![1, 1],
            cap: 1,
            opts: CumOpts::default_opts(),
        }],
    );
    // task0 occupies [s0, s0+2), task1 [s1, s1+1): overlap iff s0 <= s1 < s0+2
    let sols = cum.solutions();
    for s0 in 0..=2 {
        for s1 in 0..=2 {
            let overlap = s0 <= s1 && s1 < s0 + 2;
            assert_eq!(sols.contains(&vec![s0, s1]), !overlap);
        }
    }
    // predicate negation
    for kind in [PredKind::Ge, PredKind::Le, PredKind::Eq, PredKind::Ne] {
        let p = Pred::new(0, kind, 1);
        for v in -2..4 {
            assert_eq!(p.holds_val(v), !p.negate().holds_val(v));
        }
    }
}
