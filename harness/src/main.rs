mod drive;
mod gen;
mod orch;
mod props;
mod refmodel;
mod solve;

use orch::Tier;

fn main() {
    let args: Vec<String> = std::env::args().collect();
    if args.len() < 2 {
        eprintln!("usage: pv run <ID> <quick|thorough> | worker <ID> ... | describe <ID> <tier> <idx> | sizes");
        std::process::exit(2);
    }
    match args[1].as_str() {
        "sizes" => {
            for level in 0..2 {
                println!(
                    "level {level}: layouts={} m1={} m2={} m3={} m4={} m5={} m6={} m7={} m8={} m9={} m10={} m11={} m12={}",
                    gen::layouts(level).len(),
                    gen::m1(level).len(),
                    gen::m2(level).len(),
                    gen::m3(level).len(),
                    gen::m4(level).len(),
                    gen::m5(level).len(),
                    gen::m6(level).len(),
                    gen::m7(level).len(),
                    gen::m8(level).len(),
                    gen::m9(level).len(),
                    gen::m10(level).len(),
                    gen::m11(level).len(),
                    gen::m12(level).len()
                );
            }
        }
        "run" => {
            refmodel::self_check();
            let prop = props::lookup(&args[2]);
            let tier = Tier::parse(&args[3]);
            std::process::exit(orch::orchestrate(prop.as_ref(), tier));
        }
        "worker" => {
            let prop = props::lookup(&args[2]);
            std::process::exit(orch::worker_main(prop.as_ref(), &args[3..]));
        }
        "describe" => {
            // describe case idx: run the enumeration with a filter that matches nothing but
            // records the description
            let prop = props::lookup(&args[2]);
            let a = vec![
                args[3].clone(),
                "0".to_string(),
                "1".to_string(),
                "--only".to_string(),
                args[4].clone(),
            ];
            std::env::set_var("PV_DESCRIBE_ONLY", "1");
            std::process::exit(orch::worker_main(prop.as_ref(), &a));
        }
        "replay" => {
            // re-run one case in this process and print its violations
            let prop = props::lookup(&args[2]);
            let a = vec![
                args[3].clone(),
                "0".to_string(),
                "1".to_string(),
                "--only".to_string(),
                args[4].clone(),
            ];
            let code = orch::worker_main(prop.as_ref(), &a);
            std::process::exit(code);
        }
        other => {
            eprintln!("unknown command {other}");
            std::process::exit(2);
        }
    }
}
