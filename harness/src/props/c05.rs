//! C05: assumption solving and extracted cores are sound; assumptions are not retained.
use pumpkin_solver::predicates::Predicate;
use pumpkin_solver::termination::Indefinite;
use pumpkin_solver::verif_tap;
use serde_json::json;
use serde_json::Value;

use crate::drive::*;
use crate::gen;
use crate::orch::*;
use crate::refmodel::*;
use crate::solve::*;

pub struct C05;

fn models(tier: Tier) -> Vec<Model> {
    let mut v = vec![];
    match tier {
        Tier::Quick => {
            v.extend(gen::m1(0).into_iter().step_by(37));
            v.extend(gen::m2(0).into_iter().step_by(1201));
            v.extend(gen::m3(0).into_iter().step_by(263));
            v.extend(gen::m5(0).into_iter().step_by(97));
            v.extend(gen::m7(0).into_iter().step_by(53));
            v.extend(gen::m8(0).into_iter().step_by(9));
            v.extend(gen::m9(0).into_iter().step_by(2));
        }
        Tier::Thorough => {
            v.extend(gen::m1(1).into_iter().step_by(53));
            v.extend(gen::m2(1).into_iter().step_by(4001));
            v.extend(gen::m3(1).into_iter().step_by(197));
            v.extend(gen::m5(1).into_iter().step_by(47));
            v.extend(gen::m7(1).into_iter().step_by(23));
            v.extend(gen::m8(1).into_iter().step_by(7));
            v.extend(gen::m9(1).into_iter().step_by(2));
        }
    }
    v
}

/// Assumption predicate alphabet of a model: all predicate kinds over the first variables, with
/// values inside, at the border of and outside the domain.
fn alphabet(model: &Model, tier: Tier) -> Vec<Pred> {
    let nv = 2;
    let mut out = vec![];
    for v in 0..model.vars.len().min(nv) {
        let ps = gen::preds_of(v, &model.vars[v]);
        // thin out: keep every second predicate in quick mode and for the larger models
        let step = if tier.quick() || heavy(model) { 2 } else { 1 };
        out.extend(ps.into_iter().step_by(step));
    }
    out
}

/// The larger models (M8, M9): fewer assumption lists per model.
fn heavy(model: &Model) -> bool {
    model.space_size() > 1500
}

/// Two predicates over the same variable which no integer satisfies together.
fn directly_contradictory(a: &Pred, b: &Pred) -> bool {
    if a.var != b.var {
        return false;
    }
    let lo = a.val.min(b.val) as i64 - 2;
    let hi = a.val.max(b.val) as i64 + 2;
    !(lo..=hi).any(|v| a.holds_val(v as i32) && b.holds_val(v as i32))
}

fn combos(tier: Tier) -> Vec<(Cfg, BrancherSpec)> {
    let cfgs = Cfg::slice();
    let brs = BrancherSpec::slice();
    // restarts only happen with a brancher that does not declare them pointless (the static
    // selector pairs do): the restart-forcing configurations run with the default brancher
    if tier.quick() {
        vec![
            (cfgs[0], brs[0].clone()),
            (cfgs[1], brs[0].clone()),
            (cfgs[2], brs[2].clone()),
            (cfgs[3], brs[0].clone()),
            (cfgs[1], brs[1].clone()),
        ]
    } else {
        let mut v: Vec<(Cfg, BrancherSpec)> = cfgs.iter().map(|c| (*c, brs[0].clone())).collect();
        v.push((cfgs[1], brs[1].clone()));
        v.push((cfgs[2], brs[2].clone()));
        v
    }
}

impl Property for C05 {
    fn id(&self) -> &'static str {
        "C05"
    }
    fn level(&self) -> &'static str {
        "exploration"
    }
    fn rule(&self, tier: Tier) -> String {
        format!(
            "Strides of M1/M2/M3 x all assumption lists of length 0..{} over a predicate alphabet of the first variables (all four predicate kinds; values inside, at the border of and outside the domain; hence redundant, root-true, root-false, mutually inconsistent lists in every order) x core extraction {{none, once, twice}} x {} (configuration, brancher) combinations; followed by a plain satisfy on the same solver; plus histories of 2 assumption solves on one solver. A case = one (model, assumption list, extraction mode, combination); non-trivial = model and model+assumptions differ in satisfiability or solution count.",
            if tier.quick() { 2 } else { 3 },
            combos(tier).len()
        )
    }
    fn assumptions(&self) -> Vec<String> {
        vec![
            "a 'directly contradictory pair' is two assumptions over one variable that no integer satisfies together; for such lists the documented panic of extract_core ('Conflicting assumptions') is accepted as the report".into(),
            "a core predicate must be implied by the conjunction of the assumptions over the declared domains, or at least over the values that occur in some solution of the model (cores stated relative to the solver's root domains are counted, not reported)".into(),
        ]
    }
    fn extra(&self, tier: Tier) -> Value {
        json!({"models": models(tier).len()})
    }
    fn run(&self, ctl: &mut Ctl) {
        let tier = ctl.tier;
        let ms = models(tier);
        let combos = combos(tier);
        let max_len = if tier.quick() { 2 } else { 3 };
        let mut idx = 0u64;
        for model in &ms {
            let alpha = alphabet(model, tier);
            let mut sols: Option<Vec<Vec<i32>>> = None;
            // all lists up to max_len (ordered, with repetition allowed only for length 2 quick)
            let mut lists: Vec<Vec<Pred>> = vec![vec![]];
            for a in &alpha {
                lists.push(vec![*a]);
            }
            for a in &alpha {
                for b in &alpha {
                    lists.push(vec![*a, *b]);
                }
            }
            if max_len >= 3 && !heavy(model) {
                // triples: a stride (the full cube is too large)
                let mut k = 0usize;
                for a in &alpha {
                    for b in &alpha {
                        for c in &alpha {
                            k += 1;
                            if k % 997 == 0 {
                                lists.push(vec![*a, *b, *c]);
                            }
                        }
                    }
                }
            }
            for (li, list) in lists.iter().enumerate() {
                for extract in 0..3u8 {
                    // extraction modes beyond 0 only matter for a stride of lists
                    if extract > 0 && li % 3 != 0 {
                        continue;
                    }
                    for (cfg, br) in &combos {
                        let my = idx;
                        idx += 1;
                        if !ctl.want(my) {
                            continue;
                        }
                        let sols = sols.get_or_insert_with(|| model.solutions());
                        let desc = || {
                            format!(
                                "{} || assume {} extract={} || {} || {}",
                                model.describe(),
                                list.iter().map(|p| p.to_string()).collect::<Vec<_>>().join(","),
                                extract,
                                cfg.describe(),
                                br.describe()
                            )
                        };
                        ctl.case(my, &desc, &mut |cx| {
                            run_history(model, sols, &[(list.clone(), extract)], cfg, br, cx)
                        });
                    }
                }
            }
            // histories: two assumption solves on the same solver (a stride of pairs)
            let (cfg, br) = &combos[0];
            let mut k = 0usize;
            for l1 in lists.iter().skip(1).step_by(5) {
                for l2 in lists.iter().skip(2).step_by(7) {
                    k += 1;
                    let my = idx;
                    idx += 1;
                    if !ctl.want(my) {
                        continue;
                    }
                    let sols = sols.get_or_insert_with(|| model.solutions());
                    let e1 = (k % 3) as u8;
                    let desc = || {
                        format!(
                            "{} || history: assume {} extract={} ; assume {} extract=1 ; satisfy || {}",
                            model.describe(),
                            l1.iter().map(|p| p.to_string()).collect::<Vec<_>>().join(","),
                            e1,
                            l2.iter().map(|p| p.to_string()).collect::<Vec<_>>().join(","),
                            cfg.describe()
                        )
                    };
                    ctl.case(my, &desc, &mut |cx| {
                        run_history(model, sols, &[(l1.clone(), e1), (l2.clone(), 1)], cfg, br, cx)
                    });
                }
            }
        }
    }
}

fn check_core(
    model: &Model,
    sols: &[Vec<i32>],
    ids: &[pumpkin_solver::variables::DomainId],
    assumptions: &[Pred],
    core: &Result<Vec<Predicate>, String>,
    cx: &mut CaseCtx,
    step: usize,
) {
    let contradictory = assumptions
        .iter()
        .enumerate()
        .any(|(i, a)| assumptions[i + 1..].iter().any(|b| directly_contradictory(a, b)));
    match core {
        Err(e) => {
            if contradictory && e.contains("Conflicting assumptions") {
                cx.acc.count("conflicting_assumptions_reported", 1);
            } else {
                cx.violation(
                    format!("{}:extract_core", panic_sig(e)),
                    format!("step {step}: extract_core panicked: {e}"),
                );
            }
        }
        Ok(core) => {
            cx.acc.count("cores_checked", 1);
            let mut rc = vec![];
            let mut trivially_false = false;
            for p in core {
                match from_predicate(ids, *p) {
                    Some(q) => rc.push(q),
                    None if p.get_domain().id == 0 => {
                        // a predicate over the always-true dummy variable (value 1)
                        let q = from_predicate(&[p.get_domain()], *p).unwrap();
                        if !q.holds_val(1) {
                            // a trivially false predicate: implied only by unsatisfiable
                            // assumptions, and makes the core inconsistent by itself
                            trivially_false = true;
                        }
                    }
                    None => {
                        cx.violation(
                            "core-over-unknown-variable",
                            format!("step {step}: core contains a predicate over a variable that is not part of the model: {p:?}"),
                        );
                        return;
                    }
                }
            }
            // every core predicate is implied by the assumptions (over the declared domains)
            let mut implied_ok = true;
            model.for_each_assignment(|a| {
                if implied_ok && assumptions.iter().all(|p| p.holds(a)) {
                    if trivially_false || rc.iter().any(|q| !q.holds(a)) {
                        implied_ok = false;
                    }
                }
            });
            // A core predicate may be stated relative to the root state of the solver (e.g.
            // [x >= 2] for the assumption [x >= 1] when 1 was removed from the domain of x at the
            // root). Such a predicate is implied by the assumptions on the values that the model
            // leaves to each variable at all (the values occurring in some solution), which is what
            // "implied by the assumptions" can mean at most; it is counted, not reported.
            if !implied_ok && !trivially_false && !sols.is_empty() {
                let supported: Vec<Vec<i32>> = (0..model.vars.len())
                    .map(|i| {
                        let mut v: Vec<i32> = sols.iter().map(|s| s[i]).collect();
                        v.sort();
                        v.dedup();
                        v
                    })
                    .collect();
                let mut implied_on_supported = true;
                model.for_each_assignment(|a| {
                    if implied_on_supported
                        && a.iter().enumerate().all(|(i, x)| supported[i].contains(x))
                        && assumptions.iter().all(|p| p.holds(a))
                        && rc.iter().any(|q| !q.holds(a))
                    {
                        implied_on_supported = false;
                    }
                });
                if implied_on_supported {
                    implied_ok = true;
                    cx.acc.count("cores_stated_relative_to_root_domains", 1);
                }
            }
            let txt = rc.iter().map(|p| p.to_string()).collect::<Vec<_>>().join(",");
            if !implied_ok && !contradictory && trivially_false {
                cx.violation(
                    "core-contains-trivially-false-predicate",
                    format!("step {step}: the core contains the trivially false predicate although the assumptions are satisfiable over the declared domains (core [{txt}] + [False])"),
                );
            } else if !implied_ok && !contradictory {
                // (the constraint kinds of the model are part of the signature: the known instances
                // of this defect are confined to few kinds)
                let mut kinds: Vec<&str> = model.cons.iter().map(|c| c.kind_name()).collect();
                kinds.sort();
                kinds.dedup();
                cx.violation(
                    format!("core-not-implied-by-assumptions:{}", kinds.join("+")),
                    format!("step {step}: core [{txt}] contains a predicate that the assumptions do not imply"),
                );
            }
            // model /\ core is inconsistent
            if let Some(w) = sols
                .iter()
                .find(|s| !trivially_false && rc.iter().all(|q| q.holds(s)))
            {
                if !contradictory {
                    cx.violation(
                        "core-not-inconsistent",
                        format!("step {step}: core [{txt}] is consistent with the model: {w:?} satisfies both"),
                    );
                } else {
                    cx.acc.count("weak_core_with_contradictory_assumptions", 1);
                }
            }
        }
    }
}

/// Run a sequence of assumption solves on one solver, then a plain satisfy.
fn kind(cfg: &Cfg) -> &'static str {
    if cfg.uip {
        "uip"
    } else {
        "nolearn"
    }
}

pub fn run_history(
    model: &Model,
    sols: &[Vec<i32>],
    steps: &[(Vec<Pred>, u8)],
    cfg: &Cfg,
    br: &BrancherSpec,
    cx: &mut CaseCtx,
) {
    verif_tap::configure(Default::default());
    cx.sig_suffix = kind(cfg).to_string();
    let mut b = match guard(|| build(model, cfg)) {
        Ok(b) => b,
        Err(e) => {
            cx.violation(format!("{}:post", panic_sig(&e)), format!("panic while posting: {e}"));
            return;
        }
    };
    if b.first_error().is_some() {
        cx.acc.outcome("post-error");
        return;
    }
    let ids = b.ids.clone();
    for (step, (list, extract)) in steps.iter().enumerate() {
        let assumptions: Vec<Predicate> = list.iter().map(|p| b.pred(p)).collect();
        let restricted: Vec<&Vec<i32>> = sols
            .iter()
            .filter(|s| list.iter().all(|p| p.holds(s)))
            .collect();
        if restricted.len() != sols.len() {
            cx.nontrivial = true;
        }
        let r = with_brancher(
            br,
            &mut b.solver,
            &ids,
            cfg.seed,
            Assume {
                ids: &ids,
                term: &mut Indefinite,
                assumptions: &assumptions,
                extract: *extract,
            },
        );
        match r {
            Ok(AssumeOut::Sat(a)) => {
                cx.acc.outcome("sat");
                if let Err(e) = check_assignment(model, &a) {
                    cx.violation("assumption-solution-violates-model", format!("step {step}: {e}"));
                }
                if let Some(p) = list.iter().find(|p| !p.holds(&a)) {
                    cx.violation(
                        "assumption-solution-violates-assumption",
                        format!("step {step}: returned {a:?} which violates assumption {p}"),
                    );
                }
            }
            Ok(AssumeOut::UnsatAssumptions(c1, c2)) => {
                cx.acc.outcome("unsat-under-assumptions");
                if let Some(w) = restricted.first() {
                    cx.violation(
                        "spurious-unsat-under-assumptions",
                        format!("step {step}: reported unsatisfiable under assumptions but {w:?} satisfies model and assumptions"),
                    );
                }
                for c in [c1, c2].iter().flatten() {
                    check_core(model, sols, &ids, list, c, cx, step);
                }
            }
            Ok(AssumeOut::Unsat) => {
                cx.acc.outcome("unsat");
                if let Some(w) = sols.first() {
                    cx.violation(
                        "spurious-unsat",
                        format!("step {step}: reported Unsatisfiable but the model has solution {w:?}"),
                    );
                }
            }
            Ok(AssumeOut::Unknown) => cx.violation(
                "unknown-without-termination",
                format!("step {step}: Unknown although the termination condition never fires"),
            ),
            Ok(AssumeOut::Broken(e)) => cx.violation("partial-solution", format!("step {step}: {e}")),
            Err(e) => {
                cx.violation(
                    format!("{}:assume", panic_sig(&e)),
                    format!("step {step}: panic in satisfy_under_assumptions: {e}"),
                );
                return;
            }
        }
    }
    // assumptions are not retained: the solver answers for the original model again
    let r = with_brancher(
        br,
        &mut b.solver,
        &ids,
        cfg.seed,
        Satisfy {
            ids: &ids,
            term: &mut Indefinite,
        },
    );
    match r {
        Ok(SatOut::Sat(a)) => {
            if let Err(e) = check_assignment(model, &a) {
                cx.violation("later-satisfy-non-solution", e);
            }
        }
        Ok(SatOut::Unsat) => {
            if let Some(w) = sols.first() {
                cx.violation(
                    "assumptions-retained",
                    format!("satisfy after the assumption solves reports Unsatisfiable but the original model has solution {w:?}"),
                );
            }
        }
        Ok(SatOut::Unknown) => cx.violation("unknown-without-termination", "later satisfy returned Unknown"),
        Ok(SatOut::Broken(e)) => cx.violation("partial-solution", e),
        Err(e) => cx.violation(
            format!("{}:later-satisfy", panic_sig(&e)),
            format!("panic in satisfy after assumption solves: {e}"),
        ),
    }
}
