//! C12: root bounds reported by the solver never exclude a solution, lie within the declared
//! domain and only ever tighten.
use pumpkin_solver::proof::ProofLog;
use pumpkin_solver::variables::TransformableVariable;
use pumpkin_solver::verif_tap;
use pumpkin_solver::Solver;
use serde_json::json;
use serde_json::Value;

use crate::drive::*;
use crate::gen;
use crate::orch::*;
use crate::refmodel::*;

pub struct C12;

fn models(tier: Tier) -> Vec<Model> {
    let mut v = vec![];
    match tier {
        Tier::Quick => {
            v.extend(gen::m1(0));
            v.extend(gen::m2(0).into_iter().step_by(11));
            v.extend(gen::m3(0).into_iter().step_by(5));
            v.extend(gen::m4(0).into_iter().step_by(3));
            v.extend(gen::m5(0).into_iter().step_by(1));
            v.extend(gen::m7(0).into_iter().step_by(1));
            v.extend(gen::m10(0));
            v.extend(gen::m11(0));
            v.extend(gen::m12(0));
        }
        Tier::Thorough => {
            v.extend(gen::m1(1));
            v.extend(gen::m2(1).into_iter().step_by(1));
            v.extend(gen::m3(1).into_iter().step_by(1));
            v.extend(gen::m4(1));
            v.extend(gen::m5(1).into_iter().step_by(1));
            v.extend(gen::m7(1).into_iter().step_by(1));
            v.extend(gen::m10(1));
            v.extend(gen::m11(1));
            v.extend(gen::m12(1));
        }
    }
    // half-reified constraints must not tighten anything while the literal is free: a stride of
    // all reified cases and every half-reified cumulative (all propagation methods)
    let over_literals = |m: &Model| m.vars.iter().filter(|d| d.kind == VarKind::Lit).count() >= 2;
    v.extend(
        crate::props::c09::reified_models(tier)
            .into_iter()
            .enumerate()
            .filter(|(i, m)| !tier.quick() || i % 3 == 0 || over_literals(m))
            .map(|(_, m)| m),
    );
    v.extend(crate::props::c09::reified_cumulative_models(tier).into_iter());
    // clauses with three and four equalities on one variable (several watchers of one nogood in
    // the same watch list) followed by unit clauses that remove those values one at a time, in
    // every order
    // (the values are interior to the domain: removing them makes holes, not bound changes)
    let vars = vec![VarDecl::interval(0, 8), VarDecl::interval(0, 3)];
    let eq = |val: i32| Pred::new(0, PredKind::Eq, val);
    let ne = |val: i32| Con::PredClause(vec![Pred::new(0, PredKind::Ne, val)]);
    let clauses = [
        Con::PredClause(vec![eq(1), eq(3), eq(5), Pred::new(1, PredKind::Ge, 2)]),
        Con::PredClause(vec![eq(5), Pred::new(1, PredKind::Le, 0), eq(1), eq(3)]),
        Con::PredClause(vec![eq(2), eq(4), eq(6), eq(5), Pred::new(1, PredKind::Ne, 1)]),
        Con::PredClause(vec![eq(1), eq(3), eq(5)]),
    ];
    let units = [ne(5), ne(3), ne(1), ne(6), ne(4), Con::PredClause(vec![Pred::new(1, PredKind::Le, 1)])];
    for c in &clauses {
        for (i, a) in units.iter().enumerate() {
            for (j, b) in units.iter().enumerate().skip(i + 1) {
                v.push(Model::new(vars.clone(), vec![c.clone(), a.clone(), b.clone()]));
                for d in units.iter().skip(j + 1) {
                    v.push(Model::new(vars.clone(), vec![c.clone(), a.clone(), b.clone(), d.clone()]));
                }
            }
        }
    }
    v
}

fn permutations(n: usize) -> Vec<Vec<usize>> {
    fn rec(cur: &mut Vec<usize>, used: &mut Vec<bool>, n: usize, out: &mut Vec<Vec<usize>>) {
        if cur.len() == n {
            out.push(cur.clone());
            return;
        }
        for i in 0..n {
            if !used[i] {
                used[i] = true;
                cur.push(i);
                rec(cur, used, n, out);
                let _ = cur.pop();
                used[i] = false;
            }
        }
    }
    let mut out = vec![];
    rec(&mut vec![], &mut vec![false; n], n, &mut out);
    out
}

const VIEWS: [(i32, i32); 6] = [(1, 0), (-1, 0), (2, 0), (1, 1), (-2, -1), (3, 2)];

impl Property for C12 {
    fn id(&self) -> &'static str {
        "C12"
    }
    fn level(&self) -> &'static str {
        "exploration"
    }
    fn rule(&self, _tier: Tier) -> String {
        "Every model of M1 and strides of M2/M3/M4 x every permutation of its posting sequence; after every post the lower/upper bound of every variable and of 6 views (x, -x, 2x, x+1, -2x-1, 3x+2) of it and the value of every literal are read from the solver and compared with the brute-force solutions of the prefix model: bounds enclose all solutions, lie within the declared domain (view range) and are monotone along the prefix. A case = (model, permutation); non-trivial = the full model has some but not all assignments as solutions.".into()
    }
    fn assumptions(&self) -> Vec<String> {
        vec!["if a post reports infeasibility the sequence stops there (whether that report is right is C02's business)".into()]
    }
    fn extra(&self, tier: Tier) -> Value {
        json!({"models": models(tier).len()})
    }
    fn run(&self, ctl: &mut Ctl) {
        let tier = ctl.tier;
        let ms = models(tier);
        let mut idx = 0u64;
        for model in &ms {
            let perms = permutations(model.cons.len());
            let mut full: Option<usize> = None;
            for perm in &perms {
                let my = idx;
                idx += 1;
                if !ctl.want(my) {
                    continue;
                }
                let nsol = *full.get_or_insert_with(|| model.solutions().len());
                let desc = || format!("{} || post order {:?}", model.describe(), perm);
                ctl.case(my, &desc, &mut |cx| {
                    cx.nontrivial = gen::nontrivial(model, nsol);
                    run_perm(model, perm, cx)
                });
            }
        }
    }
}

fn run_perm(model: &Model, perm: &[usize], cx: &mut CaseCtx) {
    verif_tap::configure(Default::default());
    let cfg = Cfg::default_cfg();
    let mut solver = Solver::with_options(cfg.options(ProofLog::default()));
    let mut ids = vec![];
    let mut lits = vec![];
    for d in &model.vars {
        let (id, l) = new_var(&mut solver, d, None, &ids);
        ids.push(id);
        lits.push(l);
    }
    let n = model.vars.len();
    // previous bounds per (var, view)
    let mut prev: Vec<Vec<(i32, i32)>> = vec![vec![(i32::MIN, i32::MAX); VIEWS.len()]; n];
    let mut posted: Vec<Con> = vec![];
    for step in 0..=perm.len() {
        if step > 0 {
            let c = &model.cons[perm[step - 1]];
            let r = guard(|| post_con(&mut solver, &ids, &lits, c, None));
            match r {
                Ok(Ok(())) => posted.push(c.clone()),
                Ok(Err(_)) => {
                    cx.acc.outcome("post-error");
                    return;
                }
                Err(e) => {
                    cx.violation(format!("{}:post", panic_sig(&e)), format!("panic while posting `{c}`: {e}"));
                    return;
                }
            }
        }
        let prefix = Model::new(model.vars.clone(), posted.clone());
        let sols = prefix.solutions();
        for v in 0..n {
            for (k, (a, b)) in VIEWS.iter().enumerate() {
                let view = View::new(v, *a, *b);
                let sv = ids[v].scaled(*a).offset(*b);
                let got = guard(|| (solver.lower_bound(&sv), solver.upper_bound(&sv)));
                let (lb, ub) = match got {
                    Ok(x) => x,
                    Err(e) => {
                        cx.violation(format!("{}:bounds", panic_sig(&e)), format!("panic reading bounds of {view}: {e}"));
                        return;
                    }
                };
                // declared range of the view
                let d = &model.vars[v];
                let e0 = view.eval_val(d.lb());
                let e1 = view.eval_val(d.ub());
                let (dlo, dhi) = (e0.min(e1), e0.max(e1));
                if (lb as i128) < dlo || (ub as i128) > dhi {
                    cx.violation(
                        "bound-outside-declared-domain",
                        format!("after {step} posts: bounds of {view} are [{lb},{ub}] but its declared range is [{dlo},{dhi}]"),
                    );
                }
                if let (Some(mn), Some(mx)) = (
                    sols.iter().map(|s| view.eval(s)).min(),
                    sols.iter().map(|s| view.eval(s)).max(),
                ) {
                    if (lb as i128) > mn || (ub as i128) < mx {
                        cx.violation(
                            "root-bound-excludes-solution",
                            format!(
                                "after posting {:?}: bounds of {view} are [{lb},{ub}] but solutions of the posted constraints take values in [{mn},{mx}]",
                                posted.iter().map(|c| c.to_string()).collect::<Vec<_>>()
                            ),
                        );
                    }
                }
                let (plb, pub_) = prev[v][k];
                if lb < plb || ub > pub_ {
                    cx.violation(
                        "bounds-not-monotone",
                        format!("after {step} posts: bounds of {view} went from [{plb},{pub_}] to [{lb},{ub}]"),
                    );
                }
                prev[v][k] = (lb, ub);
            }
            if let Some(l) = lits[v] {
                for (lit, pos) in [(l, true), (!l, false)] {
                    if let Some(val) = solver.get_literal_value(lit) {
                        cx.acc.count("literal_values_read", 1);
                        if let Some(w) = sols.iter().find(|s| ((s[v] == 1) == pos) != val) {
                            cx.violation(
                                "literal-value-excludes-solution",
                                format!("after {step} posts: literal l{v}(positive={pos}) reported {val} but {w:?} is a solution"),
                            );
                        }
                    }
                }
            }
        }
    }
    cx.acc.outcome("all-posted");
}
