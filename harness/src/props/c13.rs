//! C13: FlatZinc models are solved according to FlatZinc semantics (black-box CLI against an
//! independent evaluator of the builtins).
use std::collections::BTreeMap;
use std::collections::BTreeSet;

use serde_json::json;
use serde_json::Value;

use crate::orch::*;
use crate::props::c14::build_cli;
use crate::props::c14::run_cli;
use crate::props::c14::scratch_dir;

pub struct C13;

// ------------------------------------------------------------------------------------------------
// mini FlatZinc AST
// ------------------------------------------------------------------------------------------------

#[derive(Clone, Debug, PartialEq)]
pub enum Dom {
    Range(i64, i64),
    Set(Vec<i64>),
    Bool,
}

impl Dom {
    fn values(&self) -> Vec<i64> {
        match self {
            Dom::Range(a, b) => (*a..=*b).collect(),
            Dom::Set(v) => {
                // (the list may be written unsorted and with repetitions)
                let mut v = v.clone();
                v.sort();
                v.dedup();
                v
            }
            Dom::Bool => vec![0, 1],
        }
    }
    fn is_bool(&self) -> bool {
        matches!(self, Dom::Bool)
    }
}

#[derive(Clone, Debug)]
pub struct VarDecl {
    pub name: String,
    pub dom: Dom,
    /// `= <other variable>`
    pub alias: Option<String>,
    /// `= <constant>`
    pub fixed: Option<i64>,
    pub output: bool,
}

#[derive(Clone, Debug)]
pub struct ArrDecl {
    pub name: String,
    pub elems: Vec<String>,
    pub is_bool: bool,
    pub output: bool,
}

#[derive(Clone, Debug)]
pub struct ParDecl {
    pub name: String,
    pub values: Vec<i64>,
    pub kind: ParKind,
}

#[derive(Clone, Copy, Debug, PartialEq)]
pub enum ParKind {
    IntArr,
    BoolArr,
    Int,
    Bool,
    Set,
}

#[derive(Clone, Debug, PartialEq)]
pub enum Arg {
    V(String),
    I(i64),
    B(bool),
    /// array of variables / constants written inline
    Arr(Vec<Arg>),
    /// reference to a declared array (of variables or parameters)
    Name(String),
    SetRange(i64, i64),
    SetList(Vec<i64>),
}

#[derive(Clone, Debug)]
pub struct ConDecl {
    pub name: &'static str,
    pub args: Vec<Arg>,
}

#[derive(Clone, Debug, PartialEq)]
pub enum Goal {
    Satisfy,
    Minimize(String),
    Maximize(String),
}

#[derive(Clone, Debug)]
pub struct Fzn {
    pub pars: Vec<ParDecl>,
    pub vars: Vec<VarDecl>,
    pub arrs: Vec<ArrDecl>,
    pub cons: Vec<ConDecl>,
    pub search: String,
    pub goal: Goal,
}

fn arg_text(a: &Arg) -> String {
    match a {
        Arg::V(n) | Arg::Name(n) => n.clone(),
        Arg::I(i) => i.to_string(),
        Arg::B(b) => b.to_string(),
        Arg::Arr(v) => format!("[{}]", v.iter().map(arg_text).collect::<Vec<_>>().join(",")),
        Arg::SetRange(a, b) => format!("{a}..{b}"),
        Arg::SetList(v) => format!("{{{}}}", v.iter().map(|x| x.to_string()).collect::<Vec<_>>().join(",")),
    }
}

impl Fzn {
    pub fn text(&self) -> String {
        let mut s = String::new();
        for p in &self.pars {
            let ints = p.values.iter().map(|x| x.to_string()).collect::<Vec<_>>().join(",");
            let bools = p.values.iter().map(|x| (*x == 1).to_string()).collect::<Vec<_>>().join(",");
            s.push_str(&match p.kind {
                ParKind::IntArr => format!("array [1..{}] of int: {} = [{}];\n", p.values.len(), p.name, ints),
                ParKind::BoolArr => format!("array [1..{}] of bool: {} = [{}];\n", p.values.len(), p.name, bools),
                ParKind::Int => format!("int: {} = {};\n", p.name, ints),
                ParKind::Bool => format!("bool: {} = {};\n", p.name, bools),
                ParKind::Set => format!("set of int: {} = {{{}}};\n", p.name, ints),
            });
        }
        for v in &self.vars {
            let dom = match &v.dom {
                Dom::Range(a, b) => format!("{a}..{b}"),
                Dom::Set(vals) => format!("{{{}}}", vals.iter().map(|x| x.to_string()).collect::<Vec<_>>().join(",")),
                Dom::Bool => "bool".into(),
            };
            let out = if v.output { " :: output_var" } else { "" };
            let init = match (&v.alias, v.fixed) {
                (Some(a), _) => format!(" = {a}"),
                (None, Some(c)) => {
                    if v.dom.is_bool() {
                        format!(" = {}", c == 1)
                    } else {
                        format!(" = {c}")
                    }
                }
                _ => String::new(),
            };
            s.push_str(&format!("var {dom}: {}{out}{init};\n", v.name));
        }
        for a in &self.arrs {
            let ty = if a.is_bool { "bool" } else { "int" };
            let out = if a.output {
                format!(" :: output_array([1..{}])", a.elems.len())
            } else {
                String::new()
            };
            s.push_str(&format!(
                "array [1..{}] of var {ty}: {}{out} = [{}];\n",
                a.elems.len(),
                a.name,
                a.elems.join(",")
            ));
        }
        for c in &self.cons {
            s.push_str(&format!(
                "constraint {}({});\n",
                c.name,
                c.args.iter().map(arg_text).collect::<Vec<_>>().join(",")
            ));
        }
        let goal = match &self.goal {
            Goal::Satisfy => "satisfy".to_string(),
            Goal::Minimize(v) => format!("minimize {v}"),
            Goal::Maximize(v) => format!("maximize {v}"),
        };
        s.push_str(&format!("solve {}{goal};\n", self.search));
        s
    }
}

// ------------------------------------------------------------------------------------------------
// independent evaluator (standard FlatZinc semantics of the builtins)
// ------------------------------------------------------------------------------------------------

pub type Asg = BTreeMap<String, i64>;

struct Eval<'a> {
    f: &'a Fzn,
    a: &'a Asg,
}

impl Eval<'_> {
    fn int(&self, x: &Arg) -> i64 {
        match x {
            Arg::V(n) => self.a[n],
            Arg::I(i) => *i,
            Arg::B(b) => *b as i64,
            Arg::Name(n) => {
                let p = self.f.pars.iter().find(|p| &p.name == n).expect("scalar parameter");
                assert!(matches!(p.kind, ParKind::Int | ParKind::Bool), "harness: not a scalar parameter");
                p.values[0]
            }
            other => panic!("harness: not a scalar: {other:?}"),
        }
    }
    fn arr(&self, x: &Arg) -> Vec<i64> {
        match x {
            Arg::Arr(v) => v.iter().map(|e| self.int(e)).collect(),
            Arg::Name(n) => {
                if let Some(p) = self.f.pars.iter().find(|p| &p.name == n) {
                    p.values.clone()
                } else {
                    let a = self.f.arrs.iter().find(|a| &a.name == n).expect("array name");
                    a.elems.iter().map(|e| self.a[e]).collect()
                }
            }
            other => panic!("harness: not an array: {other:?}"),
        }
    }
    fn set(&self, x: &Arg) -> Vec<i64> {
        match x {
            Arg::SetRange(a, b) => (*a..=*b).collect(),
            Arg::SetList(v) => v.clone(),
            Arg::Name(n) => {
                let p = self.f.pars.iter().find(|p| &p.name == n).expect("set parameter");
                assert!(p.kind == ParKind::Set, "harness: not a set parameter");
                p.values.clone()
            }
            other => panic!("harness: not a set: {other:?}"),
        }
    }
    fn holds(&self, c: &ConDecl) -> bool {
        let g = &c.args;
        let dot = |a: &[i64], b: &[i64]| -> i64 { a.iter().zip(b).map(|(x, y)| x * y).sum() };
        match c.name {
            "array_int_maximum" => self.arr(&g[1]).iter().max() == Some(&self.int(&g[0])),
            "array_int_minimum" => self.arr(&g[1]).iter().min() == Some(&self.int(&g[0])),
            "int_max" => self.int(&g[0]).max(self.int(&g[1])) == self.int(&g[2]),
            "int_min" => self.int(&g[0]).min(self.int(&g[1])) == self.int(&g[2]),
            "array_int_element" | "array_var_int_element" | "array_bool_element" | "array_var_bool_element" => {
                let i = self.int(&g[0]);
                let arr = self.arr(&g[1]);
                i >= 1 && (i as usize) <= arr.len() && arr[i as usize - 1] == self.int(&g[2])
            }
            "int_lin_ne" => dot(&self.arr(&g[0]), &self.arr(&g[1])) != self.int(&g[2]),
            "int_lin_le" => dot(&self.arr(&g[0]), &self.arr(&g[1])) <= self.int(&g[2]),
            "int_lin_eq" => dot(&self.arr(&g[0]), &self.arr(&g[1])) == self.int(&g[2]),
            "int_lin_ne_reif" => (dot(&self.arr(&g[0]), &self.arr(&g[1])) != self.int(&g[2])) == (self.int(&g[3]) == 1),
            "int_lin_le_reif" => (dot(&self.arr(&g[0]), &self.arr(&g[1])) <= self.int(&g[2])) == (self.int(&g[3]) == 1),
            "int_lin_eq_reif" => (dot(&self.arr(&g[0]), &self.arr(&g[1])) == self.int(&g[2])) == (self.int(&g[3]) == 1),
            "int_ne" => self.int(&g[0]) != self.int(&g[1]),
            "int_eq" => self.int(&g[0]) == self.int(&g[1]),
            "int_le" => self.int(&g[0]) <= self.int(&g[1]),
            "int_lt" => self.int(&g[0]) < self.int(&g[1]),
            "int_ne_reif" => (self.int(&g[0]) != self.int(&g[1])) == (self.int(&g[2]) == 1),
            "int_eq_reif" => (self.int(&g[0]) == self.int(&g[1])) == (self.int(&g[2]) == 1),
            "int_le_reif" => (self.int(&g[0]) <= self.int(&g[1])) == (self.int(&g[2]) == 1),
            "int_lt_reif" => (self.int(&g[0]) < self.int(&g[1])) == (self.int(&g[2]) == 1),
            "int_plus" => self.int(&g[0]) + self.int(&g[1]) == self.int(&g[2]),
            "int_times" => self.int(&g[0]) * self.int(&g[1]) == self.int(&g[2]),
            "int_div" => {
                let d = self.int(&g[1]);
                d != 0 && self.int(&g[0]) / d == self.int(&g[2])
            }
            "int_abs" => self.int(&g[0]).abs() == self.int(&g[1]),
            "pumpkin_all_different" => {
                let v = self.arr(&g[0]);
                let s: BTreeSet<i64> = v.iter().copied().collect();
                s.len() == v.len()
            }
            "array_bool_and" => self.arr(&g[0]).iter().all(|x| *x == 1) == (self.int(&g[1]) == 1),
            "array_bool_or" => self.arr(&g[0]).iter().any(|x| *x == 1) == (self.int(&g[1]) == 1),
            "pumpkin_bool_xor" => self.int(&g[0]) != self.int(&g[1]),
            "pumpkin_bool_xor_reif" => (self.int(&g[0]) != self.int(&g[1])) == (self.int(&g[2]) == 1),
            "bool2int" => self.int(&g[0]) == self.int(&g[1]),
            "bool_lin_eq" => dot(&self.arr(&g[0]), &self.arr(&g[1])) == self.int(&g[2]),
            "bool_lin_le" => dot(&self.arr(&g[0]), &self.arr(&g[1])) <= self.int(&g[2]),
            "bool_and" => (self.int(&g[0]) == 1 && self.int(&g[1]) == 1) == (self.int(&g[2]) == 1),
            "bool_clause" => self.arr(&g[0]).iter().any(|x| *x == 1) || self.arr(&g[1]).iter().any(|x| *x == 0),
            "bool_eq" => self.int(&g[0]) == self.int(&g[1]),
            "bool_eq_reif" => (self.int(&g[0]) == self.int(&g[1])) == (self.int(&g[2]) == 1),
            "bool_not" => self.int(&g[0]) != self.int(&g[1]),
            "set_in" => self.set(&g[1]).contains(&self.int(&g[0])),
            "set_in_reif" => self.set(&g[1]).contains(&self.int(&g[0])) == (self.int(&g[2]) == 1),
            "pumpkin_cumulative" => {
                let s = self.arr(&g[0]);
                let d = self.arr(&g[1]);
                let r = self.arr(&g[2]);
                let cap = self.int(&g[3]);
                s.iter().enumerate().filter(|(i, _)| d[*i] > 0).all(|(_, t)| {
                    let load: i64 = (0..s.len()).filter(|j| s[*j] <= *t && *t < s[*j] + d[*j]).map(|j| r[j]).sum();
                    load <= cap
                })
            }
            other => panic!("harness: no semantics for {other}"),
        }
    }
}

/// All solutions (assignments of all declared variables).
pub fn solutions(f: &Fzn) -> Vec<Asg> {
    let free: Vec<&VarDecl> = f.vars.iter().filter(|v| v.alias.is_none()).collect();
    let mut out = vec![];
    let mut idx = vec![0usize; free.len()];
    let doms: Vec<Vec<i64>> = free
        .iter()
        .map(|v| match v.fixed {
            Some(c) => {
                if v.dom.values().contains(&c) {
                    vec![c]
                } else {
                    vec![]
                }
            }
            None => v.dom.values(),
        })
        .collect();
    if doms.iter().any(|d| d.is_empty()) {
        return out;
    }
    loop {
        let mut a: Asg = BTreeMap::new();
        for (k, v) in free.iter().enumerate() {
            let _ = a.insert(v.name.clone(), doms[k][idx[k]]);
        }
        // aliases (possibly chained; declared after their target)
        let mut ok = true;
        for v in &f.vars {
            if let Some(t) = &v.alias {
                let val = a[t];
                if !v.dom.values().contains(&val) {
                    ok = false;
                }
                let _ = a.insert(v.name.clone(), val);
            }
        }
        if ok {
            let e = Eval { f, a: &a };
            if f.cons.iter().all(|c| e.holds(c)) {
                out.push(a);
            }
        }
        let mut k = free.len();
        loop {
            if k == 0 {
                return out;
            }
            k -= 1;
            idx[k] += 1;
            if idx[k] < doms[k].len() {
                break;
            }
            idx[k] = 0;
        }
    }
}

// ------------------------------------------------------------------------------------------------
// generator
// ------------------------------------------------------------------------------------------------

fn v(n: &str) -> Arg {
    Arg::V(n.to_string())
}

fn base_vars() -> Vec<VarDecl> {
    let mk = |name: &str, dom: Dom| VarDecl {
        name: name.to_string(),
        dom,
        alias: None,
        fixed: None,
        output: true,
    };
    vec![
        mk("x", Dom::Range(0, 2)),
        mk("y", Dom::Set(vec![-1, 1, 2])),
        mk("z", Dom::Range(-1, 1)),
        mk("p", Dom::Bool),
        mk("q", Dom::Bool),
        mk("r", Dom::Bool),
    ]
}

/// Instantiations of every handled constraint name.
pub fn constraint_instances() -> Vec<ConDecl> {
    let c = |name: &'static str, args: Vec<Arg>| ConDecl { name, args };
    let ia = |xs: &[&str]| Arg::Arr(xs.iter().map(|s| v(s)).collect());
    let ca = |xs: &[i64]| Arg::Arr(xs.iter().map(|i| Arg::I(*i)).collect());
    let mut out = vec![
        c("array_int_maximum", vec![v("z"), ia(&["x", "y"])]),
        c("array_int_maximum", vec![v("x"), Arg::Arr(vec![v("y"), Arg::I(1), v("z")])]),
        c("array_int_minimum", vec![v("z"), ia(&["x", "y"])]),
        c("array_int_minimum", vec![v("y"), ia(&["x", "x", "z"])]),
        c("int_max", vec![v("x"), v("y"), v("z")]),
        c("int_max", vec![v("z"), Arg::I(0), v("x")]),
        c("int_min", vec![v("x"), v("y"), v("z")]),
        c("int_min", vec![v("x"), v("z"), v("y")]),
        c("array_int_element", vec![v("x"), ca(&[2, -1, 1]), v("y")]),
        c("array_int_element", vec![v("y"), ca(&[0, 1]), v("z")]),
        c("array_var_int_element", vec![v("x"), ia(&["y", "z"]), v("z")]),
        c("array_var_int_element", vec![v("y"), Arg::Arr(vec![v("x"), v("z"), Arg::I(2)]), v("x")]),
        c("int_plus", vec![v("x"), v("y"), v("z")]),
        c("int_plus", vec![v("x"), Arg::I(-1), v("z")]),
        c("int_times", vec![v("x"), v("y"), v("z")]),
        c("int_times", vec![v("z"), v("z"), v("x")]),
        c("int_div", vec![v("x"), v("y"), v("z")]),
        c("int_div", vec![v("z"), v("y"), v("z")]),
        c("int_abs", vec![v("z"), v("x")]),
        c("int_abs", vec![v("y"), v("x")]),
        c("pumpkin_all_different", vec![ia(&["x", "y", "z"])]),
        c("pumpkin_all_different", vec![Arg::Arr(vec![v("x"), Arg::I(1), v("z")])]),
        c("array_bool_and", vec![ia(&["p", "q"]), v("r")]),
        c("array_bool_and", vec![Arg::Arr(vec![v("p"), Arg::B(true)]), v("q")]),
        c("array_bool_or", vec![ia(&["p", "q"]), v("r")]),
        c("array_bool_or", vec![ia(&["p", "q"]), Arg::B(true)]),
        c("array_bool_element", vec![v("x"), Arg::Arr(vec![Arg::B(true), Arg::B(false)]), v("p")]),
        c("array_var_bool_element", vec![v("x"), ia(&["p", "q"]), v("r")]),
        c("pumpkin_bool_xor", vec![v("p"), v("q")]),
        c("pumpkin_bool_xor_reif", vec![v("p"), v("q"), v("r")]),
        c("bool2int", vec![v("p"), v("x")]),
        c("bool2int", vec![v("q"), v("z")]),
        c("bool_lin_eq", vec![ca(&[1, 2]), ia(&["p", "q"]), v("x")]),
        c("bool_lin_eq", vec![ca(&[1, -1, 1]), ia(&["p", "q", "r"]), v("z")]),
        c("bool_lin_le", vec![ca(&[1, 2]), ia(&["p", "q"]), Arg::I(1)]),
        c("bool_lin_le", vec![ca(&[-1, 2, 1]), ia(&["p", "q", "r"]), Arg::I(0)]),
        c("bool_lin_le", vec![ca(&[0, 2, -1]), ia(&["p", "q", "r"]), Arg::I(0)]),
        c("bool_lin_eq", vec![ca(&[2, 0, 1]), ia(&["p", "q", "r"]), v("x")]),
        c("bool_and", vec![v("p"), v("q"), v("r")]),
        c("bool_and", vec![v("p"), v("p"), v("q")]),
        c("bool_clause", vec![ia(&["p"]), ia(&["q"])]),
        c("bool_clause", vec![ia(&["p", "q"]), ia(&["r"])]),
        c("bool_clause", vec![Arg::Arr(vec![]), ia(&["p", "q"])]),
        c("bool_eq", vec![v("p"), v("q")]),
        c("bool_eq_reif", vec![v("p"), v("q"), v("r")]),
        c("bool_not", vec![v("p"), v("q")]),
        c("set_in", vec![v("x"), Arg::SetRange(1, 2)]),
        c("set_in", vec![v("y"), Arg::SetList(vec![-1, 2, 5])]),
        c("set_in", vec![v("x"), Arg::SetList(vec![5, 7])]),
        c("set_in", vec![v("y"), Arg::SetRange(0, 0)]),
        c("set_in", vec![v("z"), Arg::SetList(vec![-1, 1])]),
        c("set_in_reif", vec![v("x"), Arg::SetRange(1, 2), v("p")]),
        c("set_in_reif", vec![v("y"), Arg::SetList(vec![-1, 2]), v("q")]),
        c("pumpkin_cumulative", vec![ia(&["x", "z"]), ca(&[2, 1]), ca(&[1, 1]), Arg::I(1)]),
        c("pumpkin_cumulative", vec![ia(&["x", "y", "z"]), ca(&[1, 1, 2]), ca(&[1, 2, 1]), Arg::I(2)]),
    ];
    // linear and binary relations with their reified forms
    for (name, reif) in [("int_lin_ne", "int_lin_ne_reif"), ("int_lin_le", "int_lin_le_reif"), ("int_lin_eq", "int_lin_eq_reif")] {
        for (coefs, vars, rhs) in [
            (vec![1, 1], vec!["x", "y"], 1),
            (vec![2, -1], vec!["x", "z"], 0),
            (vec![1, -1, 2], vec!["x", "y", "z"], 1),
            (vec![-1], vec!["y"], 1),
            // a zero coefficient
            (vec![0, 1, 1], vec!["x", "y", "z"], 1),
            (vec![0, 0], vec!["x", "z"], 0),
        ] {
            out.push(c(name, vec![ca(&coefs), ia(&vars), Arg::I(rhs)]));
            out.push(c(reif, vec![ca(&coefs), ia(&vars), Arg::I(rhs), v("p")]));
        }
    }
    for (name, reif) in [("int_ne", "int_ne_reif"), ("int_eq", "int_eq_reif"), ("int_le", "int_le_reif"), ("int_lt", "int_lt_reif")] {
        out.push(c(name, vec![v("x"), v("y")]));
        out.push(c(name, vec![v("z"), Arg::I(0)]));
        out.push(c(name, vec![Arg::I(1), v("y")]));
        out.push(c(reif, vec![v("x"), v("y"), v("p")]));
        out.push(c(reif, vec![v("z"), Arg::I(0), v("q")]));
        out.push(c(reif, vec![v("x"), v("z"), Arg::B(false)]));
    }
    out
}

const VAR_SEL: [&str; 6] = ["input_order", "first_fail", "anti_first_fail", "smallest", "largest", "max_regret"];
const VAL_SEL: [&str; 9] = [
    "indomain_min",
    "indomain_max",
    "indomain_median",
    "indomain_middle",
    "indomain_split",
    "indomain_reverse_split",
    "indomain_interval",
    "indomain_random",
    "indomain",
];

#[derive(Clone, Debug)]
pub struct Case {
    pub f: Fzn,
    pub flags: Vec<&'static str>,
}

fn used_names(cons: &[ConDecl]) -> BTreeSet<String> {
    fn walk(a: &Arg, s: &mut BTreeSet<String>) {
        match a {
            Arg::V(n) | Arg::Name(n) => {
                let _ = s.insert(n.clone());
            }
            Arg::Arr(v) => v.iter().for_each(|x| walk(x, s)),
            _ => {}
        }
    }
    let mut s = BTreeSet::new();
    for c in cons {
        c.args.iter().for_each(|a| walk(a, &mut s));
    }
    s
}

fn model(cons: Vec<ConDecl>, goal: Goal, search: String) -> Fzn {
    // declare only the variables that are used (plus x so that there is always an int)
    let mut used = used_names(&cons);
    let _ = used.insert("x".into());
    if let Goal::Minimize(g) | Goal::Maximize(g) = &goal {
        let _ = used.insert(g.clone());
    }
    Fzn {
        pars: vec![],
        vars: base_vars().into_iter().filter(|d| used.contains(&d.name)).collect(),
        arrs: vec![],
        cons,
        search,
        goal,
    }
}

pub fn cases(tier: Tier) -> Vec<Case> {
    let insts = constraint_instances();
    let mut out = vec![];
    let flag_sets: Vec<Vec<&'static str>> = vec![vec![], vec!["-a"], vec!["-f"], vec!["-a", "-f"]];
    // F1: single constraints x goals x flags
    for (i, c) in insts.iter().enumerate() {
        for (gi, goal) in [Goal::Satisfy, Goal::Minimize("x".into()), Goal::Maximize("x".into())].iter().enumerate() {
            for (fi, flags) in flag_sets.iter().enumerate() {
                if tier.quick() && gi > 0 && fi % 2 == 1 && i % 3 != 0 {
                    continue;
                }
                let mut fl = flags.clone();
                if gi > 0 && (i + fi) % 2 == 1 {
                    fl.extend(["--optimisation-strategy", "linear-unsat-sat"]);
                }
                out.push(Case {
                    f: model(vec![c.clone()], goal.clone(), String::new()),
                    flags: fl,
                });
            }
        }
    }
    // F2: pairs of constraints
    let stride = if tier.quick() { 37 } else { 1 };
    let mut k = 0usize;
    for (i, c1) in insts.iter().enumerate() {
        for c2 in insts.iter().skip(i + 1) {
            k += 1;
            if k % stride != 0 {
                continue;
            }
            let goal = match k % 3 {
                0 => Goal::Satisfy,
                1 => Goal::Minimize("x".into()),
                _ => Goal::Maximize("x".into()),
            };
            if tier.quick() {
                out.push(Case {
                    f: model(vec![c1.clone(), c2.clone()], goal, String::new()),
                    flags: if k % 2 == 0 { vec!["-a"] } else { vec![] },
                });
            } else {
                for goal in [Goal::Satisfy, Goal::Minimize("x".into()), Goal::Maximize("x".into())] {
                    for flags in [vec![], vec!["-a"]] {
                        out.push(Case { f: model(vec![c1.clone(), c2.clone()], goal.clone(), String::new()), flags });
                    }
                }
            }
        }
    }
    // F3: declaration variants on top of a few constraints
    let core: Vec<ConDecl> = if tier.quick() {
        vec![
            insts.iter().find(|c| c.name == "int_lin_le").unwrap().clone(),
            insts.iter().find(|c| c.name == "int_times").unwrap().clone(),
            insts.iter().find(|c| c.name == "bool_clause").unwrap().clone(),
            insts.iter().find(|c| c.name == "int_ne").unwrap().clone(),
        ]
    } else {
        // every instantiation of every constraint under every declaration variant
        insts.clone()
    };
    for c in &core {
        for variant in 0..26 {
            let mut f = model(vec![c.clone(), ConDecl { name: "int_le", args: vec![v("x"), v("x")] }], Goal::Satisfy, String::new());
            // make sure all base variables exist for the variants
            f.vars = base_vars();
            match variant {
                0 => {
                    // one alias: w = x
                    f.vars.push(VarDecl { name: "w".into(), dom: Dom::Range(0, 2), alias: Some("x".into()), fixed: None, output: true });
                }
                1 => {
                    // two alias pairs
                    f.vars.push(VarDecl { name: "w".into(), dom: Dom::Range(0, 2), alias: Some("x".into()), fixed: None, output: true });
                    f.vars.push(VarDecl { name: "u".into(), dom: Dom::Range(-1, 1), alias: Some("z".into()), fixed: None, output: true });
                }
                2 => {
                    // alias with a smaller domain than its target
                    f.vars.push(VarDecl { name: "w".into(), dom: Dom::Range(1, 2), alias: Some("x".into()), fixed: None, output: true });
                }
                3 => {
                    // fixed by `= constant`
                    f.vars.push(VarDecl { name: "w".into(), dom: Dom::Range(1, 1), alias: None, fixed: Some(1), output: true });
                    f.cons.push(ConDecl { name: "int_le", args: vec![v("w"), v("x")] });
                }
                4 => {
                    // bool alias and fixed bool
                    f.vars.push(VarDecl { name: "s".into(), dom: Dom::Bool, alias: Some("p".into()), fixed: None, output: true });
                    f.vars.push(VarDecl { name: "t".into(), dom: Dom::Bool, alias: None, fixed: Some(1), output: true });
                    f.cons.push(ConDecl { name: "bool_clause", args: vec![Arg::Arr(vec![v("s")]), Arg::Arr(vec![v("t")])] });
                }
                5 => {
                    // variable array with output_array and parameter array used by name
                    f.arrs.push(ArrDecl { name: "a".into(), elems: vec!["x".into(), "y".into(), "z".into()], is_bool: false, output: true });
                    f.pars.push(ParDecl { name: "cs".into(), values: vec![1, -1, 1], kind: ParKind::IntArr });
                    f.cons.push(ConDecl { name: "int_lin_le", args: vec![Arg::Name("cs".into()), Arg::Name("a".into()), Arg::I(1)] });
                    for vd in f.vars.iter_mut() {
                        vd.output = vd.dom.is_bool();
                    }
                }
                6 => {
                    // bool array output, set-typed domains only
                    f.arrs.push(ArrDecl { name: "bs".into(), elems: vec!["p".into(), "q".into()], is_bool: true, output: true });
                    f.cons.push(ConDecl { name: "array_bool_or", args: vec![Arg::Name("bs".into()), v("r")] });
                }
                7 => {
                    // non-output variables only one output
                    for vd in f.vars.iter_mut() {
                        vd.output = vd.name == "y";
                    }
                }
                8 => {
                    // alias declared with a set domain onto an interval variable
                    f.vars.push(VarDecl { name: "w".into(), dom: Dom::Set(vec![0, 2]), alias: Some("x".into()), fixed: None, output: true });
                }
                9 => {
                    // alias declared with an interval onto a set variable (upper bounds coincide)
                    f.vars.push(VarDecl { name: "w".into(), dom: Dom::Range(0, 2), alias: Some("y".into()), fixed: None, output: true });
                }
                10 => {
                    // scalar, set and bool-array parameters
                    f.pars.push(ParDecl { name: "n".into(), values: vec![1], kind: ParKind::Int });
                    f.pars.push(ParDecl { name: "bt".into(), values: vec![1], kind: ParKind::Bool });
                    f.pars.push(ParDecl { name: "ss".into(), values: vec![0, 2], kind: ParKind::Set });
                    f.pars.push(ParDecl { name: "bp".into(), values: vec![1, 0], kind: ParKind::BoolArr });
                    f.cons.push(ConDecl { name: "int_le", args: vec![Arg::Name("n".into()), v("y")] });
                    f.cons.push(ConDecl { name: "set_in", args: vec![v("x"), Arg::Name("ss".into())] });
                    f.cons.push(ConDecl { name: "bool_eq_reif", args: vec![v("p"), Arg::Name("bt".into()), v("q")] });
                    f.cons.push(ConDecl { name: "array_bool_element", args: vec![v("x"), Arg::Name("bp".into()), v("r")] });
                }
                11 => {
                    // int parameter in linear arguments and as element of an array literal
                    f.pars.push(ParDecl { name: "n".into(), values: vec![2], kind: ParKind::Int });
                    f.cons.push(ConDecl { name: "int_lin_le", args: vec![Arg::Arr(vec![Arg::I(1), Arg::Name("n".into())]), Arg::Arr(vec![v("x"), v("z")]), Arg::Name("n".into())] });
                    f.cons.push(ConDecl { name: "array_int_maximum", args: vec![v("y"), Arg::Arr(vec![v("x"), Arg::Name("n".into())])] });
                }
                12 => {
                    // bool fixed to false, bool alias chain
                    f.vars.push(VarDecl { name: "t".into(), dom: Dom::Bool, alias: None, fixed: Some(0), output: true });
                    f.vars.push(VarDecl { name: "s".into(), dom: Dom::Bool, alias: Some("t".into()), fixed: None, output: true });
                    f.cons.push(ConDecl { name: "array_bool_or", args: vec![Arg::Arr(vec![v("s"), v("p")]), v("q")] });
                }
                14 => {
                    // two range variables fixed by their initialisers to values different from
                    // their (common) declared lower bound
                    f.vars.push(VarDecl { name: "w".into(), dom: Dom::Range(0, 2), alias: None, fixed: Some(2), output: true });
                    f.vars.push(VarDecl { name: "u".into(), dom: Dom::Range(0, 2), alias: None, fixed: Some(1), output: true });
                    f.cons.push(ConDecl { name: "int_le", args: vec![v("u"), v("x")] });
                    f.cons.push(ConDecl { name: "int_ne", args: vec![v("w"), v("x")] });
                }
                15 => {
                    // a variable fixed by its initialiser, and the constant equal to its declared
                    // lower bound used in variable positions
                    f.vars.push(VarDecl { name: "w".into(), dom: Dom::Range(0, 3), alias: None, fixed: Some(2), output: true });
                    f.cons.push(ConDecl { name: "int_ne", args: vec![v("x"), Arg::I(0)] });
                    f.cons.push(ConDecl { name: "int_plus", args: vec![v("z"), Arg::I(0), v("z")] });
                    f.cons.push(ConDecl { name: "array_int_maximum", args: vec![v("y"), Arg::Arr(vec![v("z"), Arg::I(0), v("w")])] });
                }
                16 => {
                    // fixed through a singleton set_in / through an alias of a fixed variable
                    f.cons.push(ConDecl { name: "set_in", args: vec![v("x"), Arg::SetList(vec![2])] });
                    f.vars.push(VarDecl { name: "w".into(), dom: Dom::Range(0, 2), alias: Some("x".into()), fixed: None, output: true });
                    f.cons.push(ConDecl { name: "int_ne", args: vec![v("z"), Arg::I(0)] });
                    f.cons.push(ConDecl { name: "int_le", args: vec![Arg::I(0), v("y")] });
                }
                17 => {
                    // set domains written unsorted and with repeated values
                    f.vars.push(VarDecl { name: "w".into(), dom: Dom::Set(vec![2, 5, 0, 2, 7]), alias: None, fixed: None, output: true });
                    f.vars.push(VarDecl { name: "u".into(), dom: Dom::Set(vec![1, -1, 1, 0]), alias: None, fixed: None, output: true });
                    f.cons.push(ConDecl { name: "int_lin_le", args: vec![Arg::Arr(vec![Arg::I(1), Arg::I(-1)]), Arg::Arr(vec![v("x"), v("w")]), Arg::I(-3)] });
                    f.cons.push(ConDecl { name: "int_ne", args: vec![v("u"), v("z")] });
                }
                18 => {
                    // an alias class of three built as a fan, with variables declared after it
                    f.vars.push(VarDecl { name: "w".into(), dom: Dom::Range(0, 2), alias: Some("x".into()), fixed: None, output: true });
                    f.vars.push(VarDecl { name: "u".into(), dom: Dom::Range(0, 2), alias: Some("x".into()), fixed: None, output: true });
                    f.vars.push(VarDecl { name: "g".into(), dom: Dom::Range(0, 1), alias: None, fixed: None, output: true });
                    f.vars.push(VarDecl { name: "h".into(), dom: Dom::Range(1, 2), alias: None, fixed: None, output: true });
                    f.cons.push(ConDecl { name: "int_ne", args: vec![v("g"), v("h")] });
                }
                19 => {
                    // an alias class of three built as a chain, with variables declared after it
                    f.vars.push(VarDecl { name: "w".into(), dom: Dom::Range(0, 2), alias: Some("x".into()), fixed: None, output: true });
                    f.vars.push(VarDecl { name: "u".into(), dom: Dom::Range(0, 2), alias: Some("w".into()), fixed: None, output: true });
                    f.vars.push(VarDecl { name: "g".into(), dom: Dom::Range(0, 1), alias: None, fixed: None, output: true });
                    f.vars.push(VarDecl { name: "h".into(), dom: Dom::Range(1, 2), alias: None, fixed: None, output: true });
                    f.cons.push(ConDecl { name: "int_le", args: vec![v("g"), v("u")] });
                }
                20 => {
                    // a Boolean alias class of three and later Booleans
                    f.vars.push(VarDecl { name: "s".into(), dom: Dom::Bool, alias: Some("p".into()), fixed: None, output: true });
                    f.vars.push(VarDecl { name: "t".into(), dom: Dom::Bool, alias: Some("s".into()), fixed: None, output: true });
                    f.vars.push(VarDecl { name: "k".into(), dom: Dom::Bool, alias: None, fixed: None, output: true });
                    f.vars.push(VarDecl { name: "l".into(), dom: Dom::Bool, alias: None, fixed: None, output: true });
                    f.cons.push(ConDecl { name: "bool_clause", args: vec![Arg::Arr(vec![v("t"), v("k")]), Arg::Arr(vec![v("l")])] });
                }
                21 => {
                    // two alias classes of three, interleaved, of different domains
                    f.vars.push(VarDecl { name: "w".into(), dom: Dom::Range(0, 2), alias: Some("x".into()), fixed: None, output: true });
                    f.vars.push(VarDecl { name: "u".into(), dom: Dom::Range(-1, 1), alias: Some("z".into()), fixed: None, output: true });
                    f.vars.push(VarDecl { name: "g".into(), dom: Dom::Range(0, 2), alias: Some("w".into()), fixed: None, output: true });
                    f.vars.push(VarDecl { name: "h".into(), dom: Dom::Range(-1, 1), alias: Some("z".into()), fixed: None, output: true });
                    f.vars.push(VarDecl { name: "k".into(), dom: Dom::Range(0, 1), alias: None, fixed: None, output: true });
                    f.cons.push(ConDecl { name: "int_ne", args: vec![v("g"), v("h")] });
                }
                22 => {
                    // an alias class of four with narrowing domains and a later alias of a later variable
                    f.vars.push(VarDecl { name: "w".into(), dom: Dom::Range(0, 2), alias: Some("x".into()), fixed: None, output: true });
                    f.vars.push(VarDecl { name: "u".into(), dom: Dom::Range(1, 2), alias: Some("x".into()), fixed: None, output: true });
                    f.vars.push(VarDecl { name: "g".into(), dom: Dom::Range(0, 3), alias: Some("u".into()), fixed: None, output: true });
                    f.vars.push(VarDecl { name: "h".into(), dom: Dom::Range(0, 1), alias: None, fixed: None, output: true });
                    f.vars.push(VarDecl { name: "k".into(), dom: Dom::Range(0, 1), alias: Some("h".into()), fixed: None, output: true });
                    f.vars.push(VarDecl { name: "l".into(), dom: Dom::Range(0, 1), alias: None, fixed: None, output: true });
                    f.cons.push(ConDecl { name: "int_le", args: vec![v("k"), v("l")] });
                }
                23 => {
                    // set domains written unsorted / with a repeated value whose first element, last
                    // element and length look like those of an interval
                    f.vars.push(VarDecl { name: "w".into(), dom: Dom::Set(vec![2, 5, 4]), alias: None, fixed: None, output: true });
                    f.vars.push(VarDecl { name: "u".into(), dom: Dom::Set(vec![1, 1, 3]), alias: None, fixed: None, output: true });
                    f.cons.push(ConDecl { name: "int_le", args: vec![v("x"), v("w")] });
                    f.cons.push(ConDecl { name: "int_ne", args: vec![v("u"), v("z")] });
                }
                24 => {
                    // the same kind of set domain with the optimum at the value an interval would lose
                    f.vars.push(VarDecl { name: "w".into(), dom: Dom::Set(vec![3, 6, 5]), alias: None, fixed: None, output: true });
                    f.vars.push(VarDecl { name: "u".into(), dom: Dom::Set(vec![0, -2, -1]), alias: None, fixed: None, output: true });
                    f.cons.push(ConDecl { name: "int_lin_le", args: vec![Arg::Arr(vec![Arg::I(1), Arg::I(-1)]), Arg::Arr(vec![v("x"), v("w")]), Arg::I(-3)] });
                    f.cons.push(ConDecl { name: "int_le", args: vec![v("u"), v("z")] });
                }
                25 => {
                    // named set parameters written unsorted whose first element, last element and
                    // length look like those of an interval
                    f.pars.push(ParDecl { name: "ss".into(), values: vec![0, 5, 2], kind: ParKind::Set });
                    f.pars.push(ParDecl { name: "tt".into(), values: vec![1, 5, 3], kind: ParKind::Set });
                    f.vars.push(VarDecl { name: "w".into(), dom: Dom::Range(0, 6), alias: None, fixed: None, output: true });
                    f.cons.push(ConDecl { name: "set_in", args: vec![v("x"), Arg::Name("ss".into())] });
                    f.cons.push(ConDecl { name: "set_in_reif", args: vec![v("w"), Arg::Name("tt".into()), v("p")] });
                }
                _ => {
                    // several reified equalities of one variable combined in a clause
                    f.cons.push(ConDecl { name: "int_eq_reif", args: vec![v("x"), Arg::I(0), v("p")] });
                    f.cons.push(ConDecl { name: "int_eq_reif", args: vec![v("x"), Arg::I(2), v("q")] });
                    f.cons.push(ConDecl { name: "int_ne_reif", args: vec![v("y"), Arg::I(1), v("r")] });
                    f.cons.push(ConDecl { name: "bool_clause", args: vec![Arg::Arr(vec![v("p"), v("q")]), Arg::Arr(vec![v("r")])] });
                }
            }
            for flags in [vec![], vec!["-a"]] {
                out.push(Case { f: f.clone(), flags });
            }
        }
    }
    // F4: search annotations
    let base = model(
        vec![
            insts.iter().find(|c| c.name == "int_lin_ne").unwrap().clone(),
            insts.iter().find(|c| c.name == "bool_lin_le").unwrap().clone(),
        ],
        Goal::Satisfy,
        String::new(),
    );
    for (i, vs) in VAR_SEL.iter().enumerate() {
        for (j, ws) in VAL_SEL.iter().enumerate() {
            if tier.quick() && (i + j) % 3 != 0 {
                continue;
            }
            let mut f = base.clone();
            f.vars = base_vars();
            f.search = match (i + 2 * j) % 3 {
                0 => format!(":: int_search([x,y,z], {vs}, {ws}, complete) "),
                1 => format!(":: seq_search([int_search([z,x], {vs}, {ws}, complete), bool_search([p,q], input_order, indomain_max, complete)]) "),
                _ => format!(":: bool_search([q,p,r], {vs}, {ws}, complete) "),
            };
            f.goal = if j % 2 == 0 { Goal::Satisfy } else { Goal::Minimize("y".into()) };
            out.push(Case { f, flags: if i % 2 == 0 { vec!["-a"] } else { vec![] } });
        }
    }
    // F6: command-line configuration (resolver, minimisation, restarts, nogood database limits,
    // cumulative options) x a few conflict-rich models incl. cumulative x goals
    let option_sets: Vec<Vec<&'static str>> = vec![
        vec!["--no-restarts"],
        vec!["--no-learning-minimise"],
        vec!["--conflict-resolver", "no-learning"],
        vec!["--learning-max-num-clauses", "1", "--learning-lbd-threshold", "0", "--learning-sorting-strategy", "lbd"],
        vec!["--learning-max-num-clauses", "2", "--learning-sorting-strategy", "activity", "--restart-base-interval", "1", "--restart-min-initial-conflicts", "0", "--restart-sequence-generator-type", "luby"],
        vec!["--restart-sequence-generator-type", "geometric", "--restart-base-interval", "1", "--restart-min-initial-conflicts", "0", "--restart-geometric-coef", "1.5"],
        vec!["--cumulative-propagation-method", "time-table-per-point", "--cumulative-explanation-type", "naive"],
        vec!["--cumulative-propagation-method", "time-table-per-point-incremental", "--cumulative-explanation-type", "pointwise", "--cumulative-allow-holes"],
        vec!["--cumulative-propagation-method", "time-table-per-point-incremental-synchronised", "--cumulative-generate-sequence"],
        vec!["--cumulative-propagation-method", "time-table-over-interval", "--cumulative-explanation-type", "pointwise"],
        vec!["--cumulative-propagation-method", "time-table-over-interval-incremental", "--cumulative-incremental-backtracking", "--cumulative-allow-holes"],
        vec!["--cumulative-propagation-method", "time-table-over-interval-incremental-synchronised", "--cumulative-explanation-type", "naive", "--cumulative-generate-sequence"],
    ];
    let find = |name: &str, nth: usize| insts.iter().filter(|c| c.name == name).nth(nth).unwrap().clone();
    let rich: Vec<Vec<ConDecl>> = vec![
        vec![find("pumpkin_cumulative", 1), find("int_lin_ne", 2), find("int_ne", 0)],
        vec![find("pumpkin_cumulative", 0), find("int_lin_le_reif", 1), find("bool_clause", 1)],
        vec![find("pumpkin_all_different", 0), find("int_times", 0), find("int_lin_eq", 0)],
        vec![find("array_var_int_element", 0), find("int_abs", 1), find("bool2int", 0), find("pumpkin_bool_xor", 0)],
    ];
    for (ri, cons) in rich.iter().enumerate() {
        for (oi, opts) in option_sets.iter().enumerate() {
            if tier.quick() && (ri + oi) % 2 == 1 {
                continue;
            }
            for (gi, goal) in [Goal::Satisfy, Goal::Minimize("x".into()), Goal::Maximize("x".into())].iter().enumerate() {
                let mut fl: Vec<&'static str> = opts.clone();
                if gi == 0 || (oi + gi) % 2 == 0 {
                    fl.push("-a");
                }
                out.push(Case { f: model(cons.clone(), goal.clone(), String::new()), flags: fl });
            }
        }
    }
    // F5: unsatisfiable models (at compile time, at the root, only after search) x goals x flags
    let c = |name: &'static str, args: Vec<Arg>| ConDecl { name, args };
    let unsat: Vec<Vec<ConDecl>> = vec![
        vec![c("int_eq", vec![v("x"), Arg::I(5)])],
        vec![c("int_le", vec![v("x"), v("z")]), c("int_lt", vec![v("z"), v("x")])],
        vec![c("int_lin_eq", vec![Arg::Arr(vec![Arg::I(2), Arg::I(2)]), Arg::Arr(vec![v("x"), v("z")]), Arg::I(3)])],
        vec![c("pumpkin_all_different", vec![Arg::Arr(vec![v("x"), Arg::I(0), Arg::I(1), Arg::I(2)])])],
        vec![c("bool_clause", vec![Arg::Arr(vec![v("p")]), Arg::Arr(vec![])]), c("bool_not", vec![v("p"), v("q")]), c("bool_eq", vec![v("p"), v("q")])],
        vec![c("int_ne", vec![v("x"), v("z")]), c("int_ne", vec![v("x"), Arg::I(2)]), c("int_lin_eq", vec![Arg::Arr(vec![Arg::I(1), Arg::I(1)]), Arg::Arr(vec![v("x"), v("z")]), Arg::I(2)]), c("int_ne", vec![v("z"), Arg::I(2)])],
        vec![c("int_times", vec![v("x"), v("x"), v("z")]), c("int_lt", vec![v("z"), Arg::I(0)])],
        vec![c("int_eq_reif", vec![v("x"), Arg::I(0), v("p")]), c("int_eq_reif", vec![v("x"), Arg::I(2), v("q")]), c("bool_clause", vec![Arg::Arr(vec![v("p"), v("q")]), Arg::Arr(vec![])]), c("int_eq", vec![v("x"), Arg::I(1)])],
    ];
    for cons in unsat {
        for goal in [Goal::Satisfy, Goal::Minimize("x".into()), Goal::Maximize("x".into())] {
            for flags in &flag_sets {
                out.push(Case { f: model(cons.clone(), goal.clone(), String::new()), flags: flags.clone() });
            }
        }
    }
    out
}

// ------------------------------------------------------------------------------------------------
// output parsing and judging
// ------------------------------------------------------------------------------------------------

#[derive(Debug, Default)]
pub struct Parsed {
    pub blocks: Vec<BTreeMap<String, Vec<i64>>>,
    pub complete: bool,
    pub unsat: bool,
    pub unknown: bool,
    pub garbage: Vec<String>,
}

fn parse_value(s: &str) -> Option<Vec<i64>> {
    let s = s.trim();
    let scalar = |t: &str| -> Option<i64> {
        match t.trim() {
            "true" => Some(1),
            "false" => Some(0),
            x => x.parse().ok(),
        }
    };
    if let Some(i) = s.find('[') {
        let inner = &s[i + 1..s.rfind(']')?];
        if inner.trim().is_empty() {
            return Some(vec![]);
        }
        inner.split(',').map(scalar).collect()
    } else {
        scalar(s).map(|x| vec![x])
    }
}

pub fn parse_output(out: &str) -> Parsed {
    let mut p = Parsed::default();
    let mut cur: BTreeMap<String, Vec<i64>> = BTreeMap::new();
    for line in out.lines() {
        let line = line.trim();
        if line.is_empty() || line.starts_with('%') {
            continue;
        }
        match line {
            "----------" => p.blocks.push(std::mem::take(&mut cur)),
            "==========" => p.complete = true,
            "=====UNSATISFIABLE=====" => p.unsat = true,
            "=====UNKNOWN=====" => p.unknown = true,
            l => {
                if let Some((name, val)) = l.strip_suffix(';').and_then(|l| l.split_once(" = ")) {
                    match parse_value(val) {
                        Some(v) => {
                            let _ = cur.insert(name.trim().to_string(), v);
                        }
                        None => p.garbage.push(l.to_string()),
                    }
                } else {
                    p.garbage.push(l.to_string());
                }
            }
        }
    }
    p
}

/// Projection of a solution on the output items.
pub fn project(f: &Fzn, a: &Asg) -> BTreeMap<String, Vec<i64>> {
    let mut m = BTreeMap::new();
    for v in &f.vars {
        if v.output {
            let _ = m.insert(v.name.clone(), vec![a[&v.name]]);
        }
    }
    for arr in &f.arrs {
        if arr.output {
            let _ = m.insert(arr.name.clone(), arr.elems.iter().map(|e| a[e]).collect());
        }
    }
    m
}

impl Property for C13 {
    fn id(&self) -> &'static str {
        "C13"
    }
    fn level(&self) -> &'static str {
        "exploration"
    }
    fn case_cap_ms(&self, _tier: Tier) -> u64 {
        120_000
    }
    fn prepare(&self, _tier: Tier) -> Result<(), String> {
        build_cli()
    }
    fn rule(&self, tier: Tier) -> String {
        format!(
            "Grammar-bounded enumeration of FlatZinc texts: {} instantiations covering every constraint name handled by the front end (arguments from 3 integer variables with range/set domains, 3 Boolean variables, constants, inline and named arrays, set literals); families: single constraint x goal {{satisfy, minimize, maximize}} x flags {{none, -a, -f, -a -f}} (+ --optimisation-strategy linear-unsat-sat), pairs of constraints (quick: stride; thorough: every pair x 3 goals x {{none, -a}}), declaration variants (in the thorough tier on every instantiation; one and two alias pairs, alias classes of three and four members built as fans / chains / interleaved and followed by further variables, set domains written unsorted / with repeated values incl. ones whose first, last and length look like an interval, alias with a smaller domain, = constant, Boolean alias/fixed, variable arrays with output_array, parameter arrays, scalar / set / Boolean-array parameters used in constraint arguments, set-domain aliases in both directions, Boolean fixed to false with an alias chain, several reified equalities of one variable joined by a clause, non-output variables), 8 unsatisfiable models (at compile time, at the root, after search) x goals x flags, 4 conflict-rich models x 12 command-line configurations (resolver, minimisation, restart policies, nogood database limits, all six cumulative propagation methods with explanation types / holes / sequence generation / incremental backtracking) x goals, search annotations (int_search/bool_search/seq_search x {} variable x {} value selection names); {} files in total, each run through the real binary. Oracle: an independent evaluator of the builtins brute-forces the declared domains: every printed block is the projection of a solution; satisfy prints one block or the unsatisfiable marker exactly when there is none; with -a the printed SET equals the projection of all solutions and ========== follows; for minimize/maximize the last block before ========== is optimal; non-zero exit, panic or unparsable line is a violation. A case = one (file, flags); non-trivial = the model has some but not all assignments as solutions.",
            constraint_instances().len(),
            VAR_SEL.len(),
            VAL_SEL.len(),
            cases(tier).len()
        )
    }
    fn assumptions(&self) -> Vec<String> {
        vec![
            "standard semantics: 1-based element, truncating int_div with non-zero divisor, _reif as equivalence, bool_clause(pos,neg), set_in as membership, cumulative by time points".into(),
            "with -a duplicates among the printed blocks are tolerated (the statement speaks of the printed set)".into(),
            "unsupported constructs (unbounded var int, floats, set variables, pumpkin_cumulative_var; the variable selections dom_w_deg, impact, most_constrained and occurrence, for which the front end has todo!()) are not generated".into(),
        ]
    }
    fn extra(&self, _tier: Tier) -> Value {
        json!({"constraint_names": constraint_instances().iter().map(|c| c.name).collect::<BTreeSet<_>>()})
    }
    fn run(&self, ctl: &mut Ctl) {
        let tier = ctl.tier;
        let cs = cases(tier);
        let dir = scratch_dir();
        for (i, case) in cs.iter().enumerate() {
            let desc = || format!("{:?} :: {}", case.flags, case.f.text().replace('\n', " "));
            ctl.case(i as u64, &desc, &mut |cx| run_one(case, &dir, i, cx));
        }
    }
}

fn run_one(case: &Case, dir: &str, i: usize, cx: &mut CaseCtx) {
    let f = &case.f;
    let sols = solutions(f);
    let total: usize = f.vars.iter().filter(|v| v.alias.is_none()).map(|v| v.dom.values().len()).product();
    cx.nontrivial = !sols.is_empty() && sols.len() < total;
    let names: Vec<&str> = f.cons.iter().map(|c| c.name).collect();
    cx.sig_suffix = names.join("+");
    let path = format!("{dir}/c13_{i}.fzn");
    std::fs::write(&path, f.text()).expect("write fzn");
    let mut args: Vec<&str> = vec![&path];
    args.extend(case.flags.iter().copied());
    cx.acc.count("cli_runs", 1);
    let out = run_cli(&args, 20).expect("run cli");
    let _ = std::fs::remove_file(&path);
    match out.status {
        Some(0) => {}
        Some(124) => {
            cx.violation("fzn-hang", "no answer within 20 s");
            return;
        }
        st => {
            let site = out.panic_site().unwrap_or_else(|| {
                out.stdout
                    .lines()
                    .chain(out.stderr.lines())
                    .find(|l| l.contains("error") || l.contains("Error"))
                    .map(|l| l.chars().take(50).map(|c| if c.is_ascii_alphanumeric() { c } else { '_' }).collect())
                    .unwrap_or_else(|| "no-message".into())
            });
            cx.violation(
                format!("fzn-rejected-or-crashed:{site}"),
                format!("exit status {st:?}; stdout {:?}; stderr {:?}", out.stdout.chars().take(200).collect::<String>(), out.stderr.chars().take(300).collect::<String>()),
            );
            return;
        }
    }
    let p = parse_output(&out.stdout);
    if !p.garbage.is_empty() {
        cx.violation("fzn-unparsable-output", format!("lines {:?}", p.garbage));
        return;
    }
    if p.unknown {
        cx.violation("fzn-unknown", "=====UNKNOWN===== without a time limit");
        return;
    }
    let projections: BTreeSet<BTreeMap<String, Vec<i64>>> = sols.iter().map(|a| project(f, a)).collect();
    // every printed block extends to a solution
    for b in &p.blocks {
        if !projections.contains(b) {
            cx.violation("fzn-block-is-not-a-solution", format!("printed block {b:?} does not extend to a solution of the model"));
        }
    }
    let all = case.flags.contains(&"-a");
    if sols.is_empty() {
        cx.acc.outcome("unsat");
        if !p.unsat {
            cx.violation("fzn-missing-unsat-marker", format!("the model has no solution but the output is {:?}", out.stdout));
        }
        return;
    }
    if p.unsat {
        cx.violation("fzn-spurious-unsat", format!("=====UNSATISFIABLE===== but {:?} is a solution", sols[0]));
        return;
    }
    match &f.goal {
        Goal::Satisfy => {
            if all {
                cx.acc.outcome("all-solutions");
                let printed: BTreeSet<BTreeMap<String, Vec<i64>>> = p.blocks.iter().cloned().collect();
                if printed != projections {
                    let missing = projections.difference(&printed).next();
                    cx.violation(
                        "fzn-all-solutions-set-differs",
                        format!("printed {} distinct blocks, the projection of all solutions has {}; e.g. missing {missing:?}", printed.len(), projections.len()),
                    );
                }
                if !p.complete {
                    cx.violation("fzn-missing-completeness-line", "-a on a satisfaction problem did not end with ==========");
                }
            } else {
                cx.acc.outcome("one-solution");
                if p.blocks.len() != 1 {
                    cx.violation("fzn-wrong-number-of-blocks", format!("{} blocks printed for satisfy without -a", p.blocks.len()));
                }
            }
        }
        Goal::Minimize(g) | Goal::Maximize(g) => {
            cx.acc.outcome("optimise");
            let maximise = matches!(f.goal, Goal::Maximize(_));
            let best = if maximise { sols.iter().map(|a| a[g]).max() } else { sols.iter().map(|a| a[g]).min() }.unwrap();
            if !p.complete {
                cx.violation("fzn-missing-completeness-line", "optimisation did not end with ==========");
            }
            match p.blocks.last() {
                None => cx.violation("fzn-no-solution-printed", "no solution block before =========="),
                Some(last) => {
                    // the last block must be the projection of an optimal solution
                    let optimal: BTreeSet<BTreeMap<String, Vec<i64>>> = sols.iter().filter(|a| a[g] == best).map(|a| project(f, a)).collect();
                    if !optimal.contains(last) {
                        cx.violation(
                            "fzn-last-block-not-optimal",
                            format!("last block {last:?} is not the projection of an optimal solution ({g} = {best})"),
                        );
                    }
                }
            }
            if !all && p.blocks.len() > 1 {
                cx.violation("fzn-wrong-number-of-blocks", format!("{} blocks printed for optimisation without -a", p.blocks.len()));
            }
        }
    }
}
