//! C10: the solver stays usable and correct across any sequence of API calls.
//!
//! Explicit-state search over API histories: every sequence of `depth` operations over a fixed
//! alphabet is executed on a fresh real `Solver` (a `Solver` can neither be cloned nor hashed, so
//! a state is the history reaching it; no state merging). After every operation the result is
//! compared with a reference model of everything accumulated so far.
use std::cell::RefCell;

use pumpkin_solver::predicates::Predicate;
use pumpkin_solver::proof::ProofLog;
use pumpkin_solver::termination::Indefinite;
use pumpkin_solver::variables::DomainId;
use pumpkin_solver::variables::Literal;
use pumpkin_solver::variables::TransformableVariable;
use pumpkin_solver::verif_tap;
use pumpkin_solver::Solver;
use serde_json::json;
use serde_json::Value;

use crate::drive::*;
use crate::orch::*;
use crate::refmodel::*;
use crate::solve::*;

pub struct C10;

#[derive(Clone, Debug)]
pub enum Op {
    NewVar(Vec<i32>),
    NewLit,
    /// `new_literal_for_predicate` over a prologue variable
    NewLitFor(Pred),
    /// post a constraint over the prologue variables
    Post(Con),
    /// post x_newest + x0 <= 2 over the most recently created integer variable
    PostNewest,
    AddClause(Vec<Pred>),
    Satisfy,
    SatisfyUnder(Vec<Pred>, bool),
    Iterate(Option<usize>),
    Optimise { maximise: bool, unsat_sat: bool },
}

impl Op {
    fn describe(&self) -> String {
        match self {
            Op::NewVar(s) => format!("newvar{:?}", s),
            Op::NewLit => "newlit".into(),
            Op::NewLitFor(p) => format!("newlit_for({p})"),
            Op::Post(c) => format!("post({c})"),
            Op::PostNewest => "post(newest+x0<=2)".into(),
            Op::AddClause(ps) => format!("clause({})", ps.iter().map(|p| p.to_string()).collect::<Vec<_>>().join("|")),
            Op::Satisfy => "satisfy".into(),
            Op::SatisfyUnder(a, e) => format!(
                "assume({}){}",
                a.iter().map(|p| p.to_string()).collect::<Vec<_>>().join(","),
                if *e { "+core" } else { "" }
            ),
            Op::Iterate(k) => format!("iterate({})", k.map(|k| k.to_string()).unwrap_or("all".into())),
            Op::Optimise { maximise, unsat_sat } => format!(
                "{}(x0,{})",
                if *maximise { "maximise" } else { "minimise" },
                if *unsat_sat { "unsat-sat" } else { "sat-unsat" }
            ),
        }
    }
}

/// Prologue: x0:[0..2] x1:{-1,0,2} x2:[0..1] l3:literal
fn prologue() -> Vec<VarDecl> {
    vec![
        VarDecl::interval(0, 2),
        VarDecl::from_values(&[-1, 0, 2]),
        VarDecl::interval(0, 1),
        VarDecl::lit(),
    ]
}

pub fn alphabet(tier: Tier) -> Vec<Op> {
    let p = |v, k, x| Pred::new(v, k, x);
    use PredKind::*;
    let mut a = vec![
        Op::Satisfy,
        Op::Post(Con::LinLe(vec![View::id(0), View::id(1)], 1)),
        Op::AddClause(vec![p(0, Ge, 1), p(1, Le, 0)]),
        Op::Iterate(Some(1)),
        Op::SatisfyUnder(vec![p(0, Ge, 2)], false),
        Op::SatisfyUnder(vec![p(0, Le, 0), p(1, Ge, 2)], true),
        Op::Post(Con::BinNe(View::id(0), View::id(2))),
        Op::Post(Con::LinEq(vec![View::id(0)], 1)), // fixes x0 at the root
        Op::Post(Con::LinLe(vec![View::id(0)], -1)), // root infeasible
        Op::AddClause(vec![p(0, Eq, 2)]),
        Op::Iterate(None),
        Op::Optimise { maximise: false, unsat_sat: false },
        Op::Optimise { maximise: true, unsat_sat: true },
        Op::NewVar(vec![0, 1, 2]),
        Op::PostNewest,
        Op::Post(Con::LinEq(vec![View::id(0), View::id(1), View::id(2)], 2)),
    ];
    {
        a.extend([
            Op::Post(Con::Implied(Lit::p(3), Box::new(Con::LinLe(vec![View::id(1)], -1)))),
            Op::AddClause(vec![p(3, Ge, 1)]),
            Op::AddClause(vec![p(2, Le, 0), p(3, Le, 0)]),
            Op::SatisfyUnder(vec![p(1, Ne, 0), p(1, Le, 0)], true),
            Op::SatisfyUnder(vec![p(2, Ge, 1)], true),
            Op::Post(Con::Times(View::id(0), View::id(2), View::id(1))),
            Op::Post(Con::AllDiff(vec![View::id(0), View::id(1), View::id(2)])),
            Op::Post(Con::Element {
                index: View::id(2),
                array: vec![View::id(0), View::id(1)],
                rhs: View::id(0),
            }),
            Op::Post(Con::Cumulative {
                starts: vec![View::id(0), View::id(1), View::id(2)],
                durations: vec![1, 2, 1],
                usages: vec![1, 1, 1],
                cap: 1,
                opts: CumOpts::default_opts(),
            }),
            Op::NewLit,
            Op::Optimise { maximise: true, unsat_sat: false },
            Op::Optimise { maximise: false, unsat_sat: true },
            Op::NewVar(vec![-1, 1]),
            Op::Post(Con::LinNe(vec![View::id(0), View::new(1, -1, 0)], 0)),
            Op::AddClause(vec![p(0, Eq, 0), p(0, Eq, 2)]),
            Op::AddClause(vec![p(1, Ne, 0), p(0, Ne, 1), p(1, Ne, 2)]),
            Op::NewLitFor(p(0, Ge, 1)),
            // a disequality and an equality with the same constant over different variables
            Op::SatisfyUnder(vec![p(1, Ne, 2), p(0, Eq, 2)], true),
        ]);
    }
    a
}

fn depth(tier: Tier) -> usize {
    if tier.quick() {
        4
    } else {
        5
    }
}

/// The reference: declarations, accumulated constraints, excluded (blocked) partial assignments.
struct Reference {
    vars: Vec<VarDecl>,
    cons: Vec<Con>,
    /// blocked solutions: (number of variables at the time, values)
    blocked: Vec<Vec<i32>>,
    /// the solver reported infeasibility (post error, Unsatisfiable, Finished)
    reported_infeasible: bool,
    /// an optimisation ran: objective strengthening may have been left behind
    optimised: bool,
    /// what LinearSatUnsat runs leave in the solver (not part of the accumulated model): the
    /// bound `x0 better than the reported optimum`
    leftover: Vec<Con>,
}

impl Reference {
    fn solutions(&self) -> Vec<Vec<i32>> {
        let m = Model::new(self.vars.clone(), self.cons.clone());
        m.solutions_with(|a| !self.blocked.iter().any(|b| a[..b.len()] == b[..]))
    }
    /// The solutions of the accumulated model that also satisfy the leftover bounds.
    fn effective_solutions(&self) -> Vec<Vec<i32>> {
        self.solutions().into_iter().filter(|a| self.leftover.iter().all(|c| c.holds(a))).collect()
    }
}

/// A panic while creating a variable: explained by the leftover bound of LinearSatUnsat iff that
/// bound makes the solver's own model infeasible (creating variables in an infeasible solver is
/// documented as not allowed).
fn panic_violation(cx: &mut CaseCtx, r: &Reference, sig: String, msg: String) {
    let explained = !r.leftover.is_empty() && r.effective_solutions().is_empty();
    let old = std::mem::take(&mut cx.sig_suffix);
    if explained {
        cx.sig_suffix = "after-sat-unsat-optimise".into();
    }
    cx.violation(sig, msg);
    cx.sig_suffix = old;
}

/// Run a judgement against the accumulated model. If it raises violations and the solver carries
/// a leftover bound of LinearSatUnsat, the judgement is repeated against the model plus that
/// bound: violations that the leftover bound explains exactly are reported under the suffix of
/// that (known) finding, all others plainly.
fn judged(cx: &mut CaseCtx, r: &Reference, f: &dyn Fn(&[Vec<i32>], &mut CaseCtx)) {
    let sols = r.solutions();
    let official = cx.capture(|cx| f(&sols, cx));
    if official.is_empty() {
        return;
    }
    let explained = !r.leftover.is_empty() && {
        let eff = r.effective_solutions();
        cx.capture(|cx| f(&eff, cx)).is_empty()
    };
    let old = std::mem::take(&mut cx.sig_suffix);
    if explained {
        cx.sig_suffix = "after-sat-unsat-optimise".into();
    }
    for (sig, msg) in official {
        cx.violation(sig, msg);
    }
    cx.sig_suffix = old;
}

impl Property for C10 {
    fn id(&self) -> &'static str {
        "C10"
    }
    fn level(&self) -> &'static str {
        "model_checking"
    }
    fn rule(&self, tier: Tier) -> String {
        format!(
            "All sequences of exactly {} operations over an alphabet of {} API operations (new variable, new literal, new literal for a predicate, post of 14 constraint instances incl. a root-infeasible one and one that fixes a variable at the root, add_clause x7, satisfy, satisfy_under_assumptions x6 without / with core extraction (extracted twice from the same result), iterate 1/all solutions, optimise x4) on one solver after a fixed prologue of 4 variables; every prefix of every history is thereby executed. States = distinct history prefixes (no merging: the hidden solver state is what the property is about), transitions = operations extending a prefix. After every operation: no panic, no hang, the result equals the reference for the model accumulated so far (constraints, clauses, blocking clauses of iterated solutions), and the root bounds the solver reports for every variable lie in the declared domain and enclose all solutions of the accumulated model. A case = one complete history; non-trivial = it contains at least one solve after a model change.",
            depth(tier),
            alphabet(tier).len()
        )
    }
    fn assumptions(&self) -> Vec<String> {
        vec![
            "after the solver has reported infeasibility no new variables are created (the library documents this as not allowed); posting and solving continue".into(),
            "after an optimise call later results are judged like all others (the property lists an optimum among the results after which the solver answers for the accumulated model); a violation that occurs after a LinearSatUnsat run carries the suffix after-sat-unsat-optimise only if the result is exactly right for the accumulated model plus the bound (x0 better than the reported optimum) that the procedure leaves in the solver; every other violation is reported plainly".into(),
            "iteration blocks every returned solution except the last one of an abandoned iterator (the blocking clause is added lazily)".into(),
            "a fresh default brancher is created for every solve (valid use)".into(),
        ]
    }
    fn extra(&self, tier: Tier) -> Value {
        json!({"alphabet": alphabet(tier).iter().map(|o| o.describe()).collect::<Vec<_>>(), "depth": depth(tier)})
    }
    fn run(&self, ctl: &mut Ctl) {
        let tier = ctl.tier;
        let alpha = alphabet(tier);
        let d = depth(tier);
        let a = alpha.len() as u64;
        let total = a.pow(d as u32);
        for idx in 0..total {
            if !ctl.want(idx) {
                continue;
            }
            // digits, most significant first
            let mut digits = vec![0usize; d];
            let mut x = idx;
            for k in (0..d).rev() {
                digits[k] = (x % a) as usize;
                x /= a;
            }
            let ops: Vec<&Op> = digits.iter().map(|i| &alpha[*i]).collect();
            let desc = || ops.iter().map(|o| o.describe()).collect::<Vec<_>>().join(" ; ");
            ctl.case(idx, &desc, &mut |cx| {
                // new prefixes introduced by this history relative to its lexicographic predecessor
                let mut trailing_zeros = 0;
                for k in (1..d).rev() {
                    if digits[k] == 0 {
                        trailing_zeros += 1;
                    } else {
                        break;
                    }
                }
                cx.acc.states += 1 + trailing_zeros as u64;
                cx.acc.transitions += 1 + trailing_zeros as u64;
                cx.acc.traces += 1;
                run_history(&ops, cx);
            });
        }
    }
}

fn pred_of(ids: &[DomainId], p: &Pred) -> Predicate {
    to_predicate(ids[p.var], p)
}

/// Between operations the solver is at the root: the bounds it reports for every variable lie
/// within the declared domain and enclose the values of all solutions of the accumulated model.
fn check_root_bounds(solver: &Solver, ids: &[DomainId], r: &Reference, cx: &mut CaseCtx, what: &str) -> bool {
    if r.reported_infeasible {
        return true;
    }
    let res = guard(|| ids.iter().map(|id| (solver.lower_bound(id), solver.upper_bound(id))).collect::<Vec<_>>());
    let bounds = match res {
        Ok(b) => b,
        Err(e) => {
            cx.violation(format!("{}:bounds", panic_sig(&e)), format!("{what}: panic while reading bounds: {e}"));
            return false;
        }
    };
    cx.acc.count("root_bound_checks", 1);
    judged(cx, r, &|sols, cx| {
        for (i, (lb, ub)) in bounds.iter().enumerate() {
            let d = &r.vars[i];
            if *lb < d.lb() || *ub > d.ub() {
                cx.violation("root-bounds-outside-declared-domain", format!("{what}: x{i} reported as [{lb}, {ub}] but declared {:?}", d.values));
                return;
            }
            if let Some(w) = sols.iter().find(|s| s[i] < *lb || s[i] > *ub) {
                cx.violation("root-bounds-exclude-a-solution", format!("{what}: x{i} reported as [{lb}, {ub}] but {w:?} is a solution of the accumulated model"));
                return;
            }
        }
    });
    true
}

pub fn run_history(ops: &[&Op], cx: &mut CaseCtx) {
    verif_tap::configure(Default::default());
    let cfg = Cfg::default_cfg();
    let mut solver = Solver::with_options(cfg.options(ProofLog::default()));
    let mut ids: Vec<DomainId> = vec![];
    let mut lits: Vec<Option<Literal>> = vec![];
    let mut r = Reference {
        vars: prologue(),
        cons: vec![],
        blocked: vec![],
        reported_infeasible: false,
        optimised: false,
        leftover: vec![],
    };
    for d in &r.vars {
        let (id, l) = new_var(&mut solver, d, None, &[]);
        ids.push(id);
        lits.push(l);
    }
    let mut changed_since_solve = true;
    for (step, op) in ops.iter().enumerate() {
        let what = format!("step {step} {}", op.describe());
        cx.acc.count("ops_executed", 1);
        if step > 0 && !check_root_bounds(&solver, &ids, &r, cx, &format!("before {what}")) {
            return;
        }
        match op {
            Op::NewVar(shape) => {
                if r.reported_infeasible {
                    cx.acc.count("ops_skipped_after_infeasible", 1);
                    continue;
                }
                let d = VarDecl::from_values(shape);
                match guard(|| new_var(&mut solver, &d, None, &[])) {
                    Ok((id, l)) => {
                        ids.push(id);
                        lits.push(l);
                        r.vars.push(d);
                        changed_since_solve = true;
                    }
                    Err(e) => {
                        panic_violation(cx, &r, format!("{}:newvar", panic_sig(&e)), format!("{what}: panic: {e}"));
                        return;
                    }
                }
            }
            Op::NewLit | Op::NewLitFor(_) => {
                if r.reported_infeasible {
                    cx.acc.count("ops_skipped_after_infeasible", 1);
                    continue;
                }
                let d = match op {
                    Op::NewLitFor(p) => VarDecl::lit_for(*p),
                    _ => VarDecl::lit(),
                };
                match guard(|| new_var(&mut solver, &d, None, &ids)) {
                    Ok((id, l)) => {
                        ids.push(id);
                        lits.push(l);
                        if d.def.is_some() {
                            changed_since_solve = true;
                        }
                        r.vars.push(d);
                    }
                    Err(e) => {
                        panic_violation(cx, &r, format!("{}:newlit", panic_sig(&e)), format!("{what}: panic: {e}"));
                        return;
                    }
                }
            }
            Op::Post(_) | Op::PostNewest | Op::AddClause(_) => {
                let con = match op {
                    Op::Post(c) => c.clone(),
                    Op::AddClause(ps) => Con::PredClause(ps.clone()),
                    _ => {
                        // newest non-literal variable beyond the prologue
                        let Some(v) = (4..r.vars.len()).rev().find(|i| r.vars[*i].kind != VarKind::Lit) else {
                            cx.acc.count("ops_not_applicable", 1);
                            continue;
                        };
                        Con::LinLe(vec![View::id(v), View::id(0)], 2)
                    }
                };
                let res = guard(|| post_con(&mut solver, &ids, &lits, &con, None));
                match res {
                    Ok(Ok(())) => {
                        r.cons.push(con);
                        changed_since_solve = true;
                    }
                    Ok(Err(_)) => {
                        r.cons.push(con);
                        changed_since_solve = true;
                        judged(cx, &r, &|sols, cx| {
                            if let Some(w) = sols.first() {
                                cx.violation(
                                    "spurious-post-error",
                                    format!("{what}: infeasibility reported but {w:?} satisfies everything accumulated so far"),
                                );
                            }
                        });
                        r.reported_infeasible = true;
                    }
                    Err(e) => {
                        cx.violation(format!("{}:post", panic_sig(&e)), format!("{what}: panic: {e}"));
                        return;
                    }
                }
            }
            Op::Satisfy => {
                if changed_since_solve {
                    cx.nontrivial = true;
                }
                changed_since_solve = false;
                let mut br = solver.default_brancher();
                let res = (Satisfy { ids: &ids, term: &mut Indefinite }).call(&mut solver, &mut br);
                match res {
                    Ok(SatOut::Sat(a)) => {
                        judged(cx, &r, &|sols, cx| {
                            if !sols.contains(&a) {
                                cx.violation("stale-or-wrong-solution", format!("{what}: returned {a:?} which is not a solution of the accumulated model"));
                            }
                        });
                    }
                    Ok(SatOut::Unsat) => {
                        judged(cx, &r, &|sols, cx| {
                            if let Some(w) = sols.first() {
                                cx.violation("spurious-unsat", format!("{what}: Unsatisfiable but {w:?} is a solution of the accumulated model"));
                            }
                        });
                        r.reported_infeasible = true;
                    }
                    Ok(other) => cx.violation("inconclusive", format!("{what}: {other:?}")),
                    Err(e) => {
                        cx.violation(format!("{}:satisfy", panic_sig(&e)), format!("{what}: panic: {e}"));
                        return;
                    }
                }
            }
            Op::SatisfyUnder(list, extract) => {
                if changed_since_solve {
                    cx.nontrivial = true;
                }
                let assumptions: Vec<Predicate> = list.iter().map(|p| pred_of(&ids, p)).collect();
                let mut br = solver.default_brancher();
                let res = (Assume {
                    ids: &ids,
                    term: &mut Indefinite,
                    assumptions: &assumptions,
                    // (with extraction: twice on the same result object)
                    extract: 2 * (*extract as u8),
                })
                .call(&mut solver, &mut br);
                match res {
                    Ok(AssumeOut::Sat(a)) => {
                        judged(cx, &r, &|sols, cx| {
                            if !sols.contains(&a) || list.iter().any(|p| !p.holds(&a)) {
                                cx.violation("stale-or-wrong-solution", format!("{what}: returned {a:?} which does not satisfy the accumulated model and the assumptions"));
                            }
                        });
                    }
                    Ok(AssumeOut::UnsatAssumptions(core, again)) => {
                        match (&core, &again) {
                            (Some(Ok(a)), Some(Ok(b))) if a != b => {
                                cx.violation("second-core-differs", format!("{what}: first extraction {a:?}, second {b:?}"));
                            }
                            (Some(Ok(_)), Some(Err(e))) => {
                                cx.violation(format!("{}:extract_core-again", panic_sig(e)), format!("{what}: the second extract_core panicked: {e}"));
                            }
                            _ => {}
                        }
                        judged(cx, &r, &|sols, cx| {
                            if let Some(w) = sols.iter().find(|s| list.iter().all(|p| p.holds(s))) {
                                cx.violation("spurious-unsat-under-assumptions", format!("{what}: but {w:?} satisfies the accumulated model and the assumptions"));
                            }
                        });
                        if let Some(Err(e)) = core {
                            let contradictory = list.len() == 2 && {
                                let (a, b) = (list[0], list[1]);
                                a.var == b.var && !(-5..6).any(|v| a.holds_val(v) && b.holds_val(v))
                            };
                            if !(contradictory && e.contains("Conflicting assumptions")) {
                                cx.violation(format!("{}:extract_core", panic_sig(&e)), format!("{what}: extract_core panicked: {e}"));
                            }
                        }
                    }
                    Ok(AssumeOut::Unsat) => {
                        judged(cx, &r, &|sols, cx| {
                            if let Some(w) = sols.first() {
                                cx.violation("spurious-unsat", format!("{what}: Unsatisfiable but {w:?} is a solution of the accumulated model"));
                            }
                        });
                        r.reported_infeasible = true;
                    }
                    Ok(other) => cx.violation("inconclusive", format!("{what}: {other:?}")),
                    Err(e) => {
                        cx.violation(format!("{}:assume", panic_sig(&e)), format!("{what}: panic: {e}"));
                        return;
                    }
                }
            }
            Op::Iterate(k) => {
                if changed_since_solve {
                    cx.nontrivial = true;
                }
                changed_since_solve = true; // iteration changes the model (blocking clauses)
                let sols = r.solutions();
                let mut br = solver.default_brancher();
                let (got, end) = (Iterate {
                    ids: &ids,
                    term: &mut Indefinite,
                    cap: sols.len() + 2,
                    stop_after: *k,
                    on_solution: &mut |_, _| {},
                })
                .call(&mut solver, &mut br);
                let definitive = matches!(end, IterEnd::Finished | IterEnd::Unsat);
                judged(cx, &r, &|sols, cx| {
                    for (i, g) in got.iter().enumerate() {
                        if !sols.contains(g) {
                            cx.violation("stale-or-wrong-solution", format!("{what}: iteration produced {g:?} which is not a solution of the accumulated model"));
                        }
                        if got[..i].contains(g) {
                            cx.violation("repeated-solution", format!("{what}: {g:?} produced twice"));
                        }
                    }
                    if definitive && got.len() != sols.len() {
                        cx.violation(
                            "iteration-incomplete",
                            format!("{what}: iteration ended after {} of {} solutions of the accumulated model", got.len(), sols.len()),
                        );
                    }
                });
                match end {
                    IterEnd::Finished | IterEnd::Unsat => {
                        r.blocked.extend(got.iter().cloned());
                        r.reported_infeasible = true;
                    }
                    IterEnd::Stopped => {
                        // all but the last returned solution are blocked
                        let n = got.len().saturating_sub(1);
                        r.blocked.extend(got[..n].iter().cloned());
                    }
                    IterEnd::Panic(e) => {
                        cx.violation(format!("{}:iterate", panic_sig(&e)), format!("{what}: panic: {e}"));
                        return;
                    }
                    other => cx.violation("inconclusive", format!("{what}: {other:?}")),
                }
            }
            Op::Optimise { maximise, unsat_sat } => {
                if changed_since_solve {
                    cx.nontrivial = true;
                }
                changed_since_solve = true;
                let cb = RefCell::new(vec![]);
                let mut br = solver.default_brancher();
                let res = (Optimise {
                    ids: &ids,
                    term: &mut Indefinite,
                    objective: ids[0].scaled(1),
                    maximise: *maximise,
                    unsat_sat: *unsat_sat,
                    callback_solutions: &cb,
                })
                .call(&mut solver, &mut br);
                let best_of = |sols: &[Vec<i32>]| {
                    if *maximise {
                        sols.iter().map(|s| s[0]).max()
                    } else {
                        sols.iter().map(|s| s[0]).min()
                    }
                };
                match &res {
                    Ok(OptOut::Optimal(a)) => {
                        judged(cx, &r, &|sols, cx| {
                            let best = best_of(sols);
                            if !sols.contains(a) || Some(a[0]) != best {
                                cx.violation("wrong-optimum", format!("{what}: Optimal {a:?}; true optimum of x0 over the accumulated model is {best:?}"));
                            }
                        });
                        if !*unsat_sat {
                            // what the procedure leaves behind: x0 strictly better than the optimum
                            r.leftover.push(if *maximise {
                                Con::LinLe(vec![View::new(0, -1, 0)], -(a[0] + 1))
                            } else {
                                Con::LinLe(vec![View::id(0)], a[0] - 1)
                            });
                        }
                    }
                    Ok(OptOut::Unsat) => {
                        judged(cx, &r, &|sols, cx| {
                            if best_of(sols).is_some() {
                                cx.violation("spurious-unsat", format!("{what}: Unsatisfiable but the accumulated model has solutions"));
                            }
                        });
                        r.reported_infeasible = true;
                    }
                    Ok(other) => cx.violation("inconclusive", format!("{what}: {other:?}")),
                    Err(e) => {
                        cx.violation(format!("{}:optimise", panic_sig(&e)), format!("{what}: panic: {e}"));
                        return;
                    }
                }
                if !*unsat_sat {
                    // LinearSatUnsat leaves `objective <= best - 1` behind; LinearUnsatSat only
                    // adds lower bounds which the model implies. The property counts an optimum
                    // among the results after which the solver answers for the accumulated model,
                    // so later operations are judged as usual, but marked in the signature.
                    r.optimised = true;
                }
            }
        }
    }
    let _ = check_root_bounds(&solver, &ids, &r, cx, "after the last step");
    cx.acc.outcome(format!(
        "infeasible={} optimised={}",
        r.reported_infeasible, r.optimised
    ));
}
