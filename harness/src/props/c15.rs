//! C15: MaxSAT solving reports the true optimum (black-box CLI, both encodings).
use serde_json::json;
use serde_json::Value;

use crate::orch::*;
use crate::props::c14::build_cli;
use crate::props::c14::run_cli;
use crate::props::c14::scratch_dir;

pub struct C15;

const TOP: u32 = 100;

#[derive(Clone, Debug)]
pub struct Wcnf {
    pub n: usize,
    pub hard: Vec<Vec<i32>>,
    pub soft: Vec<(u32, Vec<i32>)>,
}

impl Wcnf {
    pub fn text(&self) -> String {
        let mut s = format!("p wcnf {} {} {}\n", self.n, self.hard.len() + self.soft.len(), TOP);
        for h in &self.hard {
            s.push_str(&format!("{TOP} "));
            for l in h {
                s.push_str(&format!("{l} "));
            }
            s.push_str("0\n");
        }
        for (w, c) in &self.soft {
            s.push_str(&format!("{w} "));
            for l in c {
                s.push_str(&format!("{l} "));
            }
            s.push_str("0\n");
        }
        s
    }
    fn sat(c: &[i32], asg: &[bool]) -> bool {
        c.iter().any(|l| asg[l.unsigned_abs() as usize - 1] == (*l > 0))
    }
    pub fn cost(&self, asg: &[bool]) -> Option<u64> {
        if !self.hard.iter().all(|h| Self::sat(h, asg)) {
            return None;
        }
        Some(
            self.soft
                .iter()
                .filter(|(_, c)| !Self::sat(c, asg))
                .map(|(w, _)| *w as u64)
                .sum(),
        )
    }
    pub fn optimum(&self) -> Option<u64> {
        (0..(1u32 << self.n))
            .filter_map(|bits| {
                let asg: Vec<bool> = (0..self.n).map(|i| bits >> i & 1 == 1).collect();
                self.cost(&asg)
            })
            .min()
    }
}

fn clause_pool(n: usize, max_width: usize, with_empty: bool) -> Vec<Vec<i32>> {
    let lits: Vec<i32> = (1..=n as i32).flat_map(|v| [v, -v]).collect();
    let mut out = vec![];
    if with_empty {
        out.push(vec![]);
    }
    for a in &lits {
        out.push(vec![*a]);
    }
    if max_width >= 2 {
        for (i, a) in lits.iter().enumerate() {
            for b in lits.iter().skip(i) {
                out.push(vec![*a, *b]);
            }
        }
    }
    out
}

pub fn instances(tier: Tier) -> Vec<Wcnf> {
    let mut out = vec![];
    let weights: Vec<u32> = if tier.quick() { vec![1, 2, 5] } else { vec![1, 2, 3, 5] };
    let ns: Vec<usize> = if tier.quick() { vec![2, 3] } else { vec![1, 2, 3] };
    for n in ns {
        let hards = clause_pool(n, 2, false);
        let softs = clause_pool(n, if n <= 2 { 2 } else { 1 }, true);
        // hard parts: none, one clause, two clauses (stride)
        let mut hard_sets: Vec<Vec<Vec<i32>>> = vec![vec![]];
        for h in &hards {
            hard_sets.push(vec![h.clone()]);
        }
        for (i, h1) in hards.iter().enumerate() {
            for h2 in hards.iter().skip(i + 1).step_by(if tier.quick() { 5 } else { 2 }) {
                hard_sets.push(vec![h1.clone(), h2.clone()]);
            }
        }
        let hs_step = if tier.quick() { if n == 3 { 7 } else { 3 } } else { 1 };
        for hs in hard_sets.iter().step_by(hs_step) {
            // soft parts: 1..3 soft clauses with weights
            let mut k = 0usize;
            for (i, s1) in softs.iter().enumerate() {
                for &w1 in &weights {
                    out.push(Wcnf { n, hard: hs.clone(), soft: vec![(w1, s1.clone())] });
                    for s2 in softs.iter().skip(i) {
                        for &w2 in &weights {
                            k += 1;
                            if k % (if tier.quick() { 11 } else { 3 }) != 0 {
                                continue;
                            }
                            out.push(Wcnf {
                                n,
                                hard: hs.clone(),
                                soft: vec![(w1, s1.clone()), (w2, s2.clone())],
                            });
                            // a third soft clause: the complementary unit of the first literal of
                            // s2 (soft clauses decided at the root / conflicting softs) and a
                            // duplicate of s1
                            if k % (if tier.quick() { 55 } else { 9 }) == 0 {
                                let third = s2.first().map(|l| vec![-l]).unwrap_or_default();
                                out.push(Wcnf {
                                    n,
                                    hard: hs.clone(),
                                    soft: vec![(w1, s1.clone()), (w2, s2.clone()), (weights[k % weights.len()], third)],
                                });
                                out.push(Wcnf {
                                    n,
                                    hard: hs.clone(),
                                    soft: vec![(w1, s1.clone()), (w2, s2.clone()), (w2, s1.clone())],
                                });
                            }
                        }
                    }
                }
            }
        }
    }
    out.extend(wide_instances(tier));
    out.extend(cover_instances(tier));
    out
}

/// Unit-weight instances with 9-12 soft clauses most of which are falsified in every solution
/// (minimum vertex cover of dense graphs: the soft clause -v costs 1 when v is in the cover): the
/// sorting / merge networks of the cardinality encoding and the totaliser trees get inputs of 4
/// and more per merger, and high counts.
fn cover_instances(tier: Tier) -> Vec<Wcnf> {
    let mut out = vec![];
    let ns: Vec<usize> = if tier.quick() { vec![10, 11] } else { vec![9, 10, 11, 12] };
    for n in ns {
        let all: Vec<(usize, usize)> = (1..=n).flat_map(|a| (a + 1..=n).map(move |b| (a, b))).collect();
        let mut graphs: Vec<Vec<(usize, usize)>> = vec![];
        // complete graph
        graphs.push(all.clone());
        // complete graph minus a perfect matching
        graphs.push(all.iter().copied().filter(|(a, b)| !(a % 2 == 1 && *b == a + 1)).collect());
        // complete graph minus a Hamiltonian path
        graphs.push(all.iter().copied().filter(|(a, b)| *b != a + 1).collect());
        // complete tripartite graph (parts by residue mod 3)
        graphs.push(all.iter().copied().filter(|(a, b)| a % 3 != b % 3).collect());
        if true {
            // complete bipartite graph, and the complement of a cycle, and dense pseudo-random graphs
            // given by arithmetic rules
            graphs.push(all.iter().copied().filter(|(a, b)| a % 2 != b % 2).collect());
            graphs.push(all.iter().copied().filter(|(a, b)| *b != a + 1 && !(*a == 1 && *b == n)).collect());
            for m in [3usize, 4, 5, 7] {
                for k in 0..7usize {
                    graphs.push(all.iter().copied().filter(|(a, b)| (a * b + k * (a + b) + k) % m != 0).collect());
                }
            }
        }
        for g in graphs {
            let hard: Vec<Vec<i32>> = g.iter().map(|(a, b)| vec![*a as i32, *b as i32]).collect();
            let soft: Vec<(u32, Vec<i32>)> = (1..=n as i32).map(|v| (1, vec![-v])).collect();
            out.push(Wcnf { n, hard, soft });
        }
    }
    out
}

/// Instances with 4-8 soft clauses (deeper totaliser trees, merge networks of the cardinality
/// encoding): unit softs of both polarities over 4-6 variables with structured hard parts.
fn wide_instances(tier: Tier) -> Vec<Wcnf> {
    let mut out = vec![];
    let ns: Vec<usize> = if tier.quick() { vec![4, 5] } else { vec![4, 5, 6] };
    for n in ns {
        let vars: Vec<i32> = (1..=n as i32).collect();
        let hard_sets: Vec<Vec<Vec<i32>>> = vec![
            vec![],
            // at least one
            vec![vars.clone()],
            // at most one (pairwise)
            vars.iter().flat_map(|a| vars.iter().filter(move |b| *b > a).map(move |b| vec![-a, -b])).collect(),
            // chain x1 -> x2 -> ... and not all
            vars.windows(2).map(|w| vec![-w[0], w[1]]).chain([vars.iter().map(|v| -v).collect()]).collect(),
            // exactly: x1 or x2, not both; x3 = x4
            vec![vec![1, 2], vec![-1, -2], vec![-3, 4], vec![3, -4]],
            // unsatisfiable
            vec![vec![1], vec![-1, 2], vec![-2]],
        ];
        // soft patterns: polarity per variable (+ / - / both / none), weights
        let patterns: Vec<Vec<u8>> = vec![
            vec![1; n],                                         // all positive
            vec![2; n],                                         // all negative
            (0..n).map(|i| if i % 2 == 0 { 1 } else { 2 }).collect(), // alternating
            (0..n).map(|i| if i < 2 { 3 } else { 1 }).collect(),      // both polarities on x1, x2
            (0..n).map(|i| if i == 0 { 0 } else { 2 }).collect(),     // none on x1
        ];
        let weightings: Vec<Vec<u32>> = if tier.quick() {
            vec![vec![1], vec![2], vec![1, 2, 3]]
        } else {
            vec![vec![1], vec![2], vec![1, 2, 3], vec![5, 1], vec![3, 3, 1]]
        };
        for hs in &hard_sets {
            for pat in &patterns {
                for ws in &weightings {
                    let mut soft = vec![];
                    for (i, p) in pat.iter().enumerate() {
                        let v = i as i32 + 1;
                        if p & 1 != 0 {
                            soft.push((ws[soft.len() % ws.len()], vec![v]));
                        }
                        if p & 2 != 0 {
                            soft.push((ws[soft.len() % ws.len()], vec![-v]));
                        }
                    }
                    // one binary soft clause on top
                    soft.push((ws[0], vec![1, -(n as i32)]));
                    out.push(Wcnf { n, hard: hs.clone(), soft });
                }
            }
        }
    }
    out
}

impl Property for C15 {
    fn id(&self) -> &'static str {
        "C15"
    }
    fn level(&self) -> &'static str {
        "exploration"
    }
    fn case_cap_ms(&self, _tier: Tier) -> u64 {
        120_000
    }
    fn prepare(&self, _tier: Tier) -> Result<(), String> {
        build_cli()
    }
    fn rule(&self, tier: Tier) -> String {
        format!(
            "{} WCNF instances: (a) over <=3 variables: hard parts with 0-2 clauses of width <=2 (incl. unsatisfiable hard parts), 1-3 soft clauses of width 0-2 (empty, unit, duplicate, complementary and root-decided soft clauses) with weights from {{1,2,(3,)5}}; (b) over 4-6 variables: 4-9 soft clauses (unit softs of both polarities in 5 patterns plus one binary soft clause; equal weights 1, equal weights 2, mixed weights) x 6 structured hard parts (none, at-least-one, at-most-one, implication chain, exactly-one + equality, unsatisfiable); (c) unit-weight minimum-vertex-cover instances of dense graphs over 9-12 variables (complete, minus a matching / path / cycle, multipartite, arithmetic rules) whose optimum falsifies most soft clauses; top = 100; every instance is run through the real binary with both --upper-bound-encoding values and two seeds (4 processes per case, 2 s wall cap each); oracle: brute force over 2^n assignments: s UNSATISFIABLE iff the hard clauses are unsatisfiable, otherwise s OPTIMUM FOUND, last o line = true minimum, the v line satisfies the hard clauses and costs exactly that; both encodings agree. A case = one instance; non-trivial = the optimum is neither 0 nor the sum of all weights.",
            instances(tier).len()
        )
    }
    fn assumptions(&self) -> Vec<String> {
        vec!["files are spelled canonically (layout independence of the shared parser is C14's business)".into()]
    }
    fn extra(&self, _tier: Tier) -> Value {
        json!({})
    }
    fn run(&self, ctl: &mut Ctl) {
        let tier = ctl.tier;
        let insts = instances(tier);
        let dir = scratch_dir();
        for (i, inst) in insts.iter().enumerate() {
            let desc = || inst.text();
            ctl.case(i as u64, &desc, &mut |cx| run_one(inst, &dir, i, cx));
        }
    }
}

/// Features of an instance that matter for the pseudo-Boolean encoders.
fn features(inst: &Wcnf) -> String {
    let ws: Vec<u32> = inst.soft.iter().map(|s| s.0).collect();
    let weighted = ws.iter().any(|w| *w != ws[0]);
    let empty_soft = inst.soft.iter().any(|s| s.1.is_empty());
    // literals forced by unit hard clauses
    let units: Vec<i32> = inst.hard.iter().filter(|h| h.len() == 1 || (h.len() == 2 && h[0] == h[1])).map(|h| h[0]).collect();
    let root_decided = inst
        .soft
        .iter()
        .any(|s| !s.1.is_empty() && (s.1.iter().any(|l| units.contains(l)) || s.1.iter().all(|l| units.contains(&-l))));
    let mut seen = vec![];
    let mut repeated = false;
    for s in &inst.soft {
        let mut c = s.1.clone();
        c.sort();
        c.dedup();
        if seen.contains(&c) {
            repeated = true;
        }
        seen.push(c);
    }
    let multi = inst.soft.iter().any(|s| s.1.len() >= 2);
    format!(
        "{}{}{}{}{}",
        if weighted { "W" } else { "u" },
        if empty_soft { "E" } else { "-" },
        if root_decided { "R" } else { "-" },
        if repeated { "D" } else { "-" },
        if multi { "M" } else { "-" }
    )
}

fn run_one(inst: &Wcnf, dir: &str, i: usize, cx: &mut CaseCtx) {
    let feat = features(inst);
    cx.acc.count(&format!("instances[{feat}]"), 1);
    let before = cx.acc.total_violations;
    run_inner(inst, dir, i, cx);
    if cx.acc.total_violations > before {
        cx.acc.count(&format!("failing_instances[{feat}]"), 1);
    }
}

fn run_inner(inst: &Wcnf, dir: &str, i: usize, cx: &mut CaseCtx) {
    let opt = inst.optimum();
    let total: u64 = inst.soft.iter().map(|(w, _)| *w as u64).sum();
    cx.nontrivial = matches!(opt, Some(o) if o > 0 && o < total);
    let path = format!("{dir}/c15_{i}.wcnf");
    std::fs::write(&path, inst.text()).expect("write wcnf");
    let mut optima: Vec<Option<u64>> = vec![];
    for enc in ["generalized-totalizer", "cardinality-network"] {
        for seed in ["42", "1"] {
            cx.acc.count("cli_runs", 1);
            let out = run_cli(&[&path, "--upper-bound-encoding", enc, "-r", seed], 2).expect("run cli");
            let what = format!("{enc} seed {seed}");
            let short = if enc.starts_with('g') { "gte" } else { "cne" };
            let s_line = out.stdout.lines().find(|l| l.starts_with("s ")).map(|s| s.to_string());
            match out.status {
                Some(0) => {}
                Some(124) => {
                    cx.violation(format!("maxsat-hang:{short}"), format!("{what}: no answer within 2 s"));
                    continue;
                }
                st => {
                    cx.violation(
                        format!("maxsat-crash:{}:{short}", out.panic_site().unwrap_or_else(|| "no-panic-message".into())),
                        format!(
                            "{what}: exit status {st:?}; stdout {:?}; stderr {:?}",
                            out.stdout.chars().take(200).collect::<String>(),
                            out.stderr.chars().take(300).collect::<String>()
                        ),
                    );
                    continue;
                }
            }
            match (s_line.as_deref(), opt) {
                (Some("s UNSATISFIABLE"), None) => {
                    cx.acc.outcome("unsat");
                    optima.push(None);
                }
                (Some("s UNSATISFIABLE"), Some(o)) => cx.violation(
                    format!("maxsat-spurious-unsat:{short}"),
                    format!("{what}: s UNSATISFIABLE but the hard clauses are satisfiable (optimum {o})"),
                ),
                (Some("s OPTIMUM FOUND"), None) => cx.violation(
                    format!("maxsat-optimum-on-unsat-hards:{short}"),
                    format!("{what}: s OPTIMUM FOUND but the hard clauses are unsatisfiable"),
                ),
                (Some("s OPTIMUM FOUND"), Some(o)) => {
                    cx.acc.outcome("optimum");
                    let last_o: Option<u64> = out
                        .stdout
                        .lines()
                        .filter(|l| l.starts_with("o "))
                        .last()
                        .and_then(|l| l[2..].trim().parse().ok());
                    optima.push(last_o);
                    if last_o != Some(o) {
                        cx.violation(
                            format!("maxsat-wrong-optimum:{short}"),
                            format!("{what}: last o line {last_o:?}, true optimum {o}"),
                        );
                    }
                    match out.stdout.lines().find(|l| l.starts_with("v ")) {
                        None => cx.violation(format!("maxsat-missing-model:{short}"), format!("{what}: no v line")),
                        Some(v) => {
                            let mut asg = vec![None; inst.n];
                            for tok in v[2..].split_whitespace() {
                                if let Ok(l) = tok.parse::<i32>() {
                                    if l != 0 && (l.unsigned_abs() as usize) <= inst.n {
                                        asg[l.unsigned_abs() as usize - 1] = Some(l > 0);
                                    }
                                }
                            }
                            if asg.iter().any(|a| a.is_none()) {
                                cx.violation(format!("maxsat-partial-model:{short}"), format!("{what}: v line {v:?}"));
                            } else {
                                let a: Vec<bool> = asg.iter().map(|x| x.unwrap()).collect();
                                match inst.cost(&a) {
                                    None => cx.violation(format!("maxsat-model-violates-hard:{short}"), format!("{what}: v line {v:?}")),
                                    Some(c) if c != o => cx.violation(
                                        format!("maxsat-model-cost-differs:{short}"),
                                        format!("{what}: v line {v:?} costs {c}, the optimum is {o}"),
                                    ),
                                    _ => {}
                                }
                            }
                        }
                    }
                }
                (other, _) => cx.violation(
                    format!("maxsat-no-definitive-answer:{short}"),
                    format!("{what}: status line {other:?}"),
                ),
            }
        }
    }
    if optima.windows(2).any(|w| w[0] != w[1]) {
        cx.violation("maxsat-encodings-disagree", format!("optima per (encoding, seed): {optima:?}"));
    }
    let _ = std::fs::remove_file(&path);
}
