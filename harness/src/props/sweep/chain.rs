//! C02, deep implication chains: models x_0 <= x_1 <= ... <= x_n over 0/1 variables plus a few
//! clauses over the interface variables (x_0, x_n, w) and two auxiliaries (y, t). One decision
//! pushes a propagation chain of n steps, so learned nogoods are minimised through reason
//! chains whose depth is around (below, at, above) the limits built into conflict analysis.
//! The chain makes brute force over 2^n assignments unnecessary: the solutions of the chain part
//! are exactly the n+2 threshold assignments, which the reference enumerates.
use pumpkin_solver::constraints;
use pumpkin_solver::predicates::Predicate;
use pumpkin_solver::proof::ProofLog;
use pumpkin_solver::termination::Indefinite;
use pumpkin_solver::variables::DomainId;
use pumpkin_solver::verif_tap;
use pumpkin_solver::Solver;

use crate::drive::*;
use crate::orch::*;
use crate::solve::*;

/// interface literal: (variable 0:x_0 1:x_n 2:w, positive?)
type IL = (usize, bool);

fn lengths(tier: Tier) -> Vec<usize> {
    if tier.quick() {
        vec![4, 497, 510]
    } else {
        vec![4, 60, 497, 499, 500, 501, 510, 1100]
    }
}

fn interface_literals() -> Vec<IL> {
    vec![(0, true), (0, false), (1, true), (1, false), (2, true), (2, false)]
}

struct Ref {
    n: usize,
    a: IL,
    b: IL,
    c: IL,
}

impl Ref {
    /// all solutions as (threshold k: x_i = 1 iff i >= k, w, y, t)
    fn solutions(&self) -> Vec<(usize, bool, bool, bool)> {
        let mut out = vec![];
        for k in 0..=self.n + 1 {
            let x0 = k == 0;
            let xn = k <= self.n;
            for w in [false, true] {
                let val = |l: IL| match l.0 {
                    0 => x0 == l.1,
                    1 => xn == l.1,
                    _ => w == l.1,
                };
                // clauses: (a | b | y) (a | b | !y) (c | t) (c | !t)  <=>  (a | b) & c
                if (val(self.a) || val(self.b)) && val(self.c) {
                    for y in [false, true] {
                        for t in [false, true] {
                            out.push((k, w, y, t));
                        }
                    }
                }
            }
        }
        out
    }
}

pub fn run(ctl: &mut Ctl, base: u64) {
    let tier = ctl.tier;
    let lits = interface_literals();
    let branchers = [0usize, 1, 2];
    let mut idx = base;
    for n in lengths(tier) {
        for a in &lits {
            for b in &lits {
                if b <= a {
                    continue;
                }
                for c in &lits {
                    for br in branchers {
                        let my = idx;
                        idx += 1;
                        let desc = || format!("chain n={n} clauses ({a:?}|{b:?}|y)({a:?}|{b:?}|!y)({c:?}|t)({c:?}|!t) brancher {br}");
                        ctl.case(my, &desc, &mut |cx| run_one(n, *a, *b, *c, br, cx));
                    }
                }
            }
        }
    }
}

fn run_one(n: usize, a: IL, b: IL, c: IL, br: usize, cx: &mut CaseCtx) {
    let reference = Ref { n, a, b, c };
    let sols = reference.solutions();
    cx.nontrivial = !sols.is_empty();
    super::tap_learned_only();
    let cfg = Cfg::default_cfg();
    let mut solver = Solver::with_options(cfg.options(ProofLog::default()));
    let xs: Vec<DomainId> = (0..=n).map(|_| solver.new_bounded_integer(0, 1)).collect();
    let w = solver.new_bounded_integer(0, 1);
    let y = solver.new_bounded_integer(0, 1);
    let t = solver.new_bounded_integer(0, 1);
    let mut ok = true;
    for i in 0..n {
        ok &= solver
            .add_constraint(constraints::binary_less_than_or_equals(xs[i], xs[i + 1]))
            .post()
            .is_ok();
    }
    let lit = |l: IL| -> Predicate {
        let d = match l.0 {
            0 => xs[0],
            1 => xs[n],
            _ => w,
        };
        if l.1 {
            Predicate::LowerBound { domain_id: d, lower_bound: 1 }
        } else {
            Predicate::UpperBound { domain_id: d, upper_bound: 0 }
        }
    };
    let pos = |d: DomainId| Predicate::LowerBound { domain_id: d, lower_bound: 1 };
    let neg = |d: DomainId| Predicate::UpperBound { domain_id: d, upper_bound: 0 };
    ok &= solver.add_clause([lit(a), lit(b), pos(y)]).is_ok();
    ok &= solver.add_clause([lit(a), lit(b), neg(y)]).is_ok();
    ok &= solver.add_clause([lit(c), pos(t)]).is_ok();
    ok &= solver.add_clause([lit(c), neg(t)]).is_ok();
    if !ok {
        cx.acc.outcome("chain-post-error");
        if !sols.is_empty() {
            cx.violation("chain-spurious-post-error", "posting reported infeasibility on a satisfiable chain model");
        }
        return;
    }
    // decision order: x_0 first (value selection max pushes the whole chain), then w, y, t, then
    // the rest of the chain
    let mut order = vec![xs[0], w, y, t];
    order.extend(xs[1..].iter().copied());
    let spec = match br {
        0 => BrancherSpec::Indep(0, 1), // InputOrder / InDomainMax
        1 => BrancherSpec::Indep(0, 0), // InputOrder / InDomainMin
        _ => BrancherSpec::Default,
    };
    let mut all: Vec<DomainId> = xs.clone();
    all.extend([w, y, t]);
    let r = with_brancher(&spec, &mut solver, &order, 42, Satisfy { ids: &all, term: &mut Indefinite });
    // learned nogoods: no reference solution may satisfy all predicates of a learned nogood
    let value_of = |d: DomainId, s: &(usize, bool, bool, bool)| -> i32 {
        if d == w {
            s.1 as i32
        } else if d == y {
            s.2 as i32
        } else if d == t {
            s.3 as i32
        } else {
            let i = (d.id - xs[0].id) as usize;
            (i >= s.0) as i32
        }
    };
    for ev in verif_tap::drain() {
        if let verif_tap::Event::Learned { predicates, .. } = ev {
            cx.acc.count("chain_learned_nogoods_checked", 1);
            let holds = |p: &Predicate, s: &(usize, bool, bool, bool)| -> bool {
                let d = p.get_domain();
                if d.id == 0 {
                    return from_predicate(&[d], *p).unwrap().holds_val(1);
                }
                let v = value_of(d, s);
                from_predicate(&[d], *p).unwrap().holds_val(v)
            };
            if let Some(wit) = sols.iter().find(|s| predicates.iter().all(|p| holds(p, s))) {
                cx.violation(
                    "chain-learned-nogood-not-entailed",
                    format!("learned nogood {predicates:?} is satisfied by the solution threshold={} w={} y={} t={}", wit.0, wit.1, wit.2, wit.3),
                );
            }
        }
    }
    let c2 = verif_tap::counters();
    cx.acc.count("chain_conflicts", c2.conflicts);
    match r {
        Ok(SatOut::Sat(vals)) => {
            cx.acc.outcome("chain-sat");
            // recover (k, w, y, t) and check
            let xvals = &vals[..=n];
            let monotone = xvals.windows(2).all(|p| p[0] <= p[1]);
            let k = xvals.iter().position(|v| *v == 1).unwrap_or(n + 1);
            let s = (k, vals[n + 1] == 1, vals[n + 2] == 1, vals[n + 3] == 1);
            if !monotone || !sols.contains(&s) {
                cx.violation("chain-non-solution", format!("returned assignment (threshold {k}, w={}, y={}, t={}, monotone={monotone}) is not a solution", s.1, s.2, s.3));
            }
        }
        Ok(SatOut::Unsat) => {
            cx.acc.outcome("chain-unsat");
            if let Some(wit) = sols.first() {
                cx.violation(
                    "chain-spurious-unsat",
                    format!("Unsatisfiable reported but threshold={} w={} y={} t={} is a solution", wit.0, wit.1, wit.2, wit.3),
                );
            }
        }
        Ok(other) => cx.violation("chain-inconclusive", format!("{other:?}")),
        Err(e) => cx.violation(format!("{}:chain", panic_sig(&e)), format!("panic: {e}")),
    }
}
