//! C08: the cumulative constraint means the same under all 144 option combinations.
use pumpkin_solver::termination::Indefinite;
use pumpkin_solver::verif_tap;
use serde_json::json;
use serde_json::Value;

use crate::drive::*;
use crate::orch::*;
use crate::refmodel::*;
use crate::solve::*;

pub struct C08;

#[derive(Clone, Debug)]
pub struct TaskSet {
    pub vars: Vec<VarDecl>,
    pub starts: Vec<View>,
    pub durations: Vec<i32>,
    pub usages: Vec<i32>,
    pub cap: i32,
    pub side: Option<Con>,
    /// further side constraints
    pub more: Vec<Con>,
}

impl TaskSet {
    pub fn model(&self, opts: CumOpts) -> Model {
        let mut cons = vec![Con::Cumulative {
            starts: self.starts.clone(),
            durations: self.durations.clone(),
            usages: self.usages.clone(),
            cap: self.cap,
            opts,
        }];
        if let Some(s) = &self.side {
            cons.push(s.clone());
        }
        cons.extend(self.more.iter().cloned());
        Model::new(self.vars.clone(), cons)
    }
}

fn start_shapes(tier: Tier) -> Vec<Vec<i32>> {
    if tier.quick() {
        vec![vec![0, 1], vec![0, 1, 2], vec![-1, 0, 1], vec![0, 2]]
    } else {
        vec![
            vec![0, 1],
            vec![0, 1, 2],
            vec![-1, 0, 1],
            vec![0, 2],
            vec![-2, -1, 0],
            vec![1],
            vec![0, 1, 3],
        ]
    }
}

fn start_views(var: usize, tier: Tier) -> Vec<View> {
    if tier.quick() {
        vec![View::id(var), View::new(var, -1, 0)]
    } else {
        vec![View::id(var), View::new(var, -1, 0), View::new(var, 1, 1), View::new(var, 2, 0)]
    }
}

/// Enumerate task sets; `f` is called with a running index and a lazily built task set.
pub fn task_sets(tier: Tier) -> Vec<TaskSet> {
    let shapes = start_shapes(tier);
    let durs: Vec<i32> = if tier.quick() { vec![0, 1, 2] } else { vec![0, 1, 2, 3] };
    let uses: Vec<i32> = if tier.quick() { vec![0, 1, 2] } else { vec![0, 1, 2, 3] };
    let caps: Vec<i32> = if tier.quick() { vec![1, 2] } else { vec![1, 2, 3] };
    let mut out = vec![];
    // two tasks
    for s0 in &shapes {
        for s1 in &shapes {
            let vars = vec![VarDecl::from_values(s0), VarDecl::from_values(s1)];
            for v0 in start_views(0, tier) {
                for v1 in start_views(1, tier) {
                    for &d0 in &durs {
                        for &d1 in &durs {
                            for &u0 in &uses {
                                for &u1 in &uses {
                                    for &cap in &caps {
                                        out.push(TaskSet {
                                            vars: vars.clone(),
                                            starts: vec![v0, v1],
                                            durations: vec![d0, d1],
                                            usages: vec![u0, u1],
                                            cap,
                                            side: None,
                                            more: vec![],
                                        });
                                    }
                                }
                            }
                        }
                    }
                }
            }
        }
    }
    // three tasks (identity views), durations/usages from a reduced alphabet, with and without a
    // side constraint that moves bounds for reasons other than the cumulative itself
    let shapes3: Vec<Vec<i32>> = if tier.quick() {
        vec![vec![0, 1, 2], vec![-1, 0, 1]]
    } else {
        vec![vec![0, 1, 2], vec![-1, 0, 1], vec![0, 2], vec![0, 1, 2, 3]]
    };
    let du: Vec<(i32, i32)> = if tier.quick() {
        vec![(1, 1), (2, 1), (1, 2)]
    } else {
        vec![(1, 1), (2, 1), (1, 2), (2, 2), (0, 1), (3, 1), (1, 0)]
    };
    for s0 in &shapes3 {
        for s1 in &shapes3 {
            for s2 in &shapes3 {
                let vars = vec![
                    VarDecl::from_values(s0),
                    VarDecl::from_values(s1),
                    VarDecl::from_values(s2),
                ];
                for a in &du {
                    for b in &du {
                        for c in &du {
                            for cap in [1, 2] {
                                let base = TaskSet {
                                    vars: vars.clone(),
                                    starts: vec![View::id(0), View::id(1), View::id(2)],
                                    durations: vec![a.0, b.0, c.0],
                                    usages: vec![a.1, b.1, c.1],
                                    cap,
                                    side: None,
                                            more: vec![],
                                };
                                out.push(base.clone());
                                let mut with_side = base.clone();
                                with_side.side =
                                    Some(Con::LinLe(vec![View::id(0), View::new(1, -1, 0)], 0));
                                out.push(with_side);
                                if !tier.quick() {
                                    let mut w2 = base.clone();
                                    w2.side = Some(Con::LinNe(
                                        vec![View::id(0), View::id(1), View::id(2)],
                                        2,
                                    ));
                                    out.push(w2);
                                    let mut w3 = base.clone();
                                    w3.starts = vec![View::id(0), View::new(1, -1, 1), View::id(2)];
                                    out.push(w3);
                                }
                            }
                        }
                    }
                }
            }
        }
    }
    // four tasks: two of them fixed (singleton start domains) so that two separate profiles with
    // a gap of 0, 1 or 2 time units exist from the start, one long flexible task that can span
    // both profiles and the gap, and one short flexible task that fits into the gap
    let fixed_pairs: Vec<(i32, i32)> = if tier.quick() {
        vec![(0, 2), (0, 3), (1, 2)]
    } else {
        vec![(0, 1), (0, 2), (0, 3), (1, 2), (1, 3), (-1, 1), (0, 4)]
    };
    let long: Vec<(Vec<i32>, i32)> = if tier.quick() {
        vec![(vec![0, 1, 2, 3], 3), (vec![0, 1, 2], 4)]
    } else {
        vec![(vec![0, 1, 2, 3], 3), (vec![0, 1, 2], 4), (vec![-1, 0, 1, 2], 3), (vec![0, 1, 2, 3], 2)]
    };
    let short: Vec<(Vec<i32>, i32, i32)> = if tier.quick() {
        vec![(vec![0, 1, 2, 3, 4], 1, 2), (vec![0, 1, 2, 3], 1, 1)]
    } else {
        vec![(vec![0, 1, 2, 3, 4], 1, 2), (vec![0, 1, 2, 3], 1, 1), (vec![0, 1, 2, 3, 4], 2, 2), (vec![-1, 0, 1, 2, 3], 1, 2)]
    };
    for (pa, pb) in &fixed_pairs {
        for fd in [1, 2] {
            for (ldom, ld) in &long {
                for (sdom, sd, su) in &short {
                    for cap in [2, 3] {
                        for order in 0..2 {
                            // order 0: a b long short; order 1: short long b a (different ids and
                            // different fixing order under InputOrder branching)
                            let a = (VarDecl::from_values(&[*pa]), fd, 1);
                            let b = (VarDecl::from_values(&[*pb]), 1, 1);
                            let l = (VarDecl::from_values(ldom), *ld, 1);
                            let sh = (VarDecl::from_values(sdom), *sd, *su);
                            let tasks = if order == 0 { vec![a, b, l, sh] } else { vec![sh, l, b, a] };
                            out.push(TaskSet {
                                vars: tasks.iter().map(|t| t.0.clone()).collect(),
                                starts: (0..4).map(View::id).collect(),
                                durations: tasks.iter().map(|t| t.1).collect(),
                                usages: tasks.iter().map(|t| t.2).collect(),
                                cap,
                                side: None,
                                            more: vec![],
                            });
                        }
                    }
                }
            }
        }
    }
    out.extend(profile_sets());
    out.extend(medium_sets(tier));
    out.extend(negative_anchor_sets(tier));
    out
}

/// A task fixed at time -1 that uses the whole capacity (a profile at a negative time point from
/// the start) and three flexible tasks around time 0: profiles at negative and non-negative time
/// points exist side by side, and the flexible tasks are pushed across time 0.
pub fn negative_anchor_sets(tier: Tier) -> Vec<TaskSet> {
    let mut out = vec![];
    let du = [(2, 2), (2, 1), (1, 1)];
    let per = 3 * 2 * 3u64;
    let total = per.pow(3);
    let mut i = 0;
    while i < total {
        let mut x = i;
        let mut vars = vec![VarDecl::from_values(&[-1])];
        let mut durations = vec![1];
        let mut usages = vec![2];
        for _ in 0..3 {
            let lb = (x % 3) as i32 - 1;
            x /= 3;
            let width = 2 + (x % 2) as i32;
            x /= 2;
            let (d, u) = du[(x % 3) as usize];
            x /= 3;
            vars.push(VarDecl::interval(lb, lb + width));
            durations.push(d);
            usages.push(u);
        }
        out.push(TaskSet { vars, starts: (0..4).map(View::id).collect(), durations, usages, cap: 2, side: None, more: vec![] });
        i += if tier.quick() { 5 } else { 1 };
    }
    out
}

/// Medium-sized task sets (3-4 tasks, start domains of 3-5 values, durations 0-4, usages 0-3,
/// capacities 2-4; every other one shifted by -3): every `stride`-th element of the full product space in mixed-radix order.
/// Their complete enumeration under the default brancher drives the incremental propagators
/// through long sequences of conflicts, backtracks and re-derived bounds.
pub fn medium_sets(tier: Tier) -> Vec<TaskSet> {
    let mut out = vec![];
    for (n, stride) in [(3usize, if tier.quick() { 337_331u64 } else { 40_009 }), (4, if tier.quick() { 202_500_007 } else { 16_200_007 })] {
        let per_task = 5 * 3 * 5 * 4u64;
        let total = per_task.pow(n as u32) * 3;
        let mut i = stride / 2;
        while i < total {
            let mut x = i;
            // every other set is moved to start times around 0 (lower bounds -3..1)
            let shift = if (i / stride) % 2 == 1 { -3 } else { 0 };
            let cap = 2 + (x % 3) as i32;
            x /= 3;
            let mut vars = vec![];
            let mut durations = vec![];
            let mut usages = vec![];
            for _ in 0..n {
                let lb = (x % 5) as i32;
                x /= 5;
                let width = 2 + (x % 3) as i32;
                x /= 3;
                durations.push((x % 5) as i32);
                x /= 5;
                usages.push((x % 4) as i32);
                x /= 4;
                vars.push(VarDecl::interval(lb + shift, lb + shift + width));
            }
            out.push(TaskSet {
                vars,
                starts: (0..n).map(View::id).collect(),
                durations,
                usages,
                cap,
                side: None,
                more: vec![],
            });
            i += stride;
        }
    }
    out
}

/// Task sets in which one decision builds two separate overloaded profiles at once (through side
/// constraints), with flexible tasks whose domains span both profiles: several profiles
/// propagate on one task in a single invocation (holes, sequences, cached explanations).
pub fn profile_sets() -> Vec<TaskSet> {
    let v = View::id;
    let mut out = vec![];
    // L1: b = a + 4; a in {2,5}, b in {6,9}; t spans both
    out.push(TaskSet {
        vars: vec![VarDecl::from_values(&[2, 5]), VarDecl::from_values(&[6, 9]), VarDecl::interval(0, 9)],
        starts: vec![v(0), v(1), v(2)],
        durations: vec![2, 2, 1],
        usages: vec![2, 2, 1],
        cap: 2,
        side: Some(Con::BinEq(v(1), View::new(0, 1, 4))),
        more: vec![],
    });
    // L2: a switch k fixes a and b through two different constraints in one round
    for (tdur, tuse, cap) in [(1, 1, 2), (2, 1, 2), (1, 2, 3)] {
        out.push(TaskSet {
            vars: vec![
                VarDecl::interval(0, 1),
                VarDecl::from_values(&[2, 5]),
                VarDecl::from_values(&[6, 9]),
                VarDecl::interval(0, 9),
            ],
            starts: vec![v(1), v(2), v(3)],
            durations: vec![2, 2, tdur],
            usages: vec![cap, cap, tuse],
            cap,
            side: Some(Con::BinEq(v(1), View::new(0, 3, 2))),
            more: vec![Con::BinEq(v(2), View::new(0, 3, 6))],
        });
    }
    // L3: the same with a second flexible task and partial profiles (two tasks per profile)
    out.push(TaskSet {
        vars: vec![
            VarDecl::interval(0, 1),
            VarDecl::from_values(&[2, 5]),
            VarDecl::from_values(&[6, 9]),
            VarDecl::interval(0, 9),
            VarDecl::interval(1, 8),
        ],
        starts: vec![v(1), v(2), v(3), v(4)],
        durations: vec![2, 2, 1, 2],
        usages: vec![2, 2, 1, 1],
        cap: 2,
        side: Some(Con::BinEq(v(1), View::new(0, 3, 2))),
        more: vec![Con::BinEq(v(2), View::new(0, 3, 6))],
    });
    // L4: profiles built from two tasks each (one fixed, one driven by the switch)
    out.push(TaskSet {
        vars: vec![
            VarDecl::interval(0, 1),
            VarDecl::from_values(&[2]),
            VarDecl::from_values(&[2, 4]),
            VarDecl::from_values(&[7]),
            VarDecl::from_values(&[7, 9]),
            VarDecl::interval(0, 9),
        ],
        starts: vec![v(1), v(2), v(3), v(4), v(5)],
        durations: vec![2, 2, 2, 2, 1],
        usages: vec![1, 1, 1, 1, 1],
        cap: 2,
        side: Some(Con::BinEq(v(2), View::new(0, -2, 4))),
        more: vec![Con::BinEq(v(4), View::new(0, -2, 9))],
    });
    out.extend(decision_profile_sets());
    out.extend(long_profile_sets());
    out
}

/// L7 of `profile_sets`.
pub fn decision_profile_sets() -> Vec<TaskSet> {
    let v = View::id;
    let mut out = vec![];
    // L7: a decision creates the first of two profiles separated by a short gap; the only
    // solutions have the long task directly in front of the second profile (an explanation of the
    // push through both profiles that forgets the first one makes the learned nogood remove them)
    for (a0, dur, b) in [(2, 3, 6), (1, 3, 5), (2, 4, 7), (2, 3, 5)] {
        // variable order a, y, s, b: input-order search decides a first
        out.push(TaskSet {
            vars: vec![VarDecl::from_values(&[a0, 20]), VarDecl::interval(0, 1), VarDecl::interval(0, b), VarDecl::from_values(&[b])],
            starts: vec![v(2), v(0), v(3)],
            durations: vec![dur, dur, dur],
            usages: vec![1, 1, 1],
            cap: 1,
            // s + dur*y >= b - dur  and  s - dur*y >= b - 2*dur: s >= b - dur whatever y is
            side: Some(Con::LinLe(vec![View::new(2, -1, 0), View::new(1, -dur, 0)], -(b - dur))),
            more: vec![Con::LinLe(vec![View::new(2, -1, 0), View::new(1, dur, 0)], -(b - 2 * dur))],
        });
    }
    out
}

/// L5 of `profile_sets`.
pub fn long_profile_sets() -> Vec<TaskSet> {
    let v = View::id;
    let mut out = vec![];
    // L5: a profile of three or more time points and short tasks that only touch its first or
    // last point when started just outside of it (explanation points of holes and of bound updates
    // differ along the profile)
    for (adur, durs, uses, cap) in [
        (4, [2, 3], [2, 1, 1], 2),
        (4, [2, 2], [1, 1, 1], 2),
        (3, [2, 2], [2, 1, 2], 3),
        (5, [2, 3], [1, 1, 1], 1),
    ] {
        out.push(TaskSet {
            vars: vec![VarDecl::interval(2, 3), VarDecl::interval(0, 8), VarDecl::interval(0, 9)],
            starts: vec![v(0), v(1), v(2)],
            durations: vec![adur, durs[0], durs[1]],
            usages: uses.to_vec(),
            cap,
            side: None,
            more: vec![],
        });
    }
    // L6: two profiles separated by a gap that is shorter than a long task, which is pushed
    // through both of them in one go (sequences of profiles; the explanation has to cover the
    // first profile, the gap and the second profile)
    let mut gaps = vec![];
    // (adur, b, tdur, lb, more): the first task occupies 2..2+adur-1, the second b..b+1, the long
    // task has duration tdur and lower bound lb; in the first shape the pointwise stepping
    // (lb+tdur-1, then +tdur) lands inside the gap between the profiles
    let mut shapes: Vec<(i32, i32, i32, i32, bool)> = vec![(3, 6, 3, 0, false), (2, 5, 3, 0, true), (3, 7, 4, 0, true)];
    for adur in [2, 3] {
        for b in [5, 6, 7] {
            for tdur in [3, 4, 5] {
                for lb in [0, 1] {
                    if (adur, b, tdur, lb) != (3, 6, 3, 0) && b > 2 + adur {
                        shapes.push((adur, b, tdur, lb, false));
                    }
                }
            }
        }
    }
    for (adur, b, tdur, lb, more_tasks) in shapes {
        let mut vars = vec![VarDecl::from_values(&[2]), VarDecl::from_values(&[b]), VarDecl::interval(lb, 9)];
        let mut durations = vec![adur, 2, tdur];
        let mut usages = vec![1, 1, 1];
        if more_tasks {
            // a second flexible task that fits into the gap
            vars.push(VarDecl::interval(0, 8));
            durations.push(1);
            usages.push(1);
        }
        gaps.push(TaskSet { starts: (0..vars.len()).map(v).collect(), vars, durations, usages, cap: 1, side: None, more: vec![] });
    }
    // (the first set of each kind comes first: the quick tier of C17 takes two)
    let mut ordered = vec![out.remove(0), gaps.remove(0)];
    ordered.extend(out);
    ordered.extend(gaps);
    ordered
}

impl Property for C08 {
    fn id(&self) -> &'static str {
        "C08"
    }
    fn level(&self) -> &'static str {
        "exploration"
    }
    fn rule(&self, tier: Tier) -> String {
        format!(
            "All task sets with 2 tasks (start domains from {} shapes incl. negative values and holes, start views x/-x{}, durations and usages 0..{}, capacities 1..{}) a family of 3-task sets (with and without a side constraint) and a family of 4-task sets (two fixed tasks leaving a gap of 0-2 time units, a long flexible task that can span both and a short one that fits the gap) 6 two-profile sets and a family of medium-sized sets (3-4 tasks, start domains of 3-5 values, durations 0-4, usages 0-3, capacities 2-4: every k-th element of the product space in mixed-radix order) (a 0-1 switch builds two separate overloaded profiles in one propagation round through side constraints while flexible tasks span both), each under ALL 144 CumulativeOptions; a case = (task set, option combination, brancher picked by case index from 3); the complete solution set obtained by iteration is compared with the time-point reference semantics. Non-trivial = the reference solution set is neither empty nor everything.",
            start_shapes(tier).len(),
            if tier.quick() { "" } else { "/x+1/2x" },
            if tier.quick() { 2 } else { 3 },
            if tier.quick() { 2 } else { 3 },
        )
    }
    fn assumptions(&self) -> Vec<String> {
        vec![
            "reference semantics: for all time points t, sum of usages of tasks with s<=t<s+d is at most the capacity (zero-duration tasks never run)".into(),
            "solution sets are compared as sets; the order of solutions is not constrained".into(),
        ]
    }
    fn extra(&self, tier: Tier) -> Value {
        json!({"task_sets": task_sets(tier).len(), "option_combinations": 144})
    }
    fn run(&self, ctl: &mut Ctl) {
        let tier = ctl.tier;
        let sets = task_sets(tier);
        let opts = CumOpts::all();
        let branchers = [
            BrancherSpec::Indep(0, 0),
            BrancherSpec::Indep(4, 5),
            BrancherSpec::Default,
        ];
        let cfg = Cfg::default_cfg();
        for (si, ts) in sets.iter().enumerate() {
            let base = si as u64 * 144;
            let mut any = false;
            for oi in 0..144 {
                if ctl.want(base + oi) {
                    any = true;
                    break;
                }
            }
            if !any {
                continue;
            }
            let ref_model = ts.model(CumOpts::default_opts());
            let sols = ref_model.solutions();
            let nontrivial = crate::gen::nontrivial(&ref_model, sols.len());
            for (oi, o) in opts.iter().enumerate() {
                let idx = base + oi as u64;
                let br = &branchers[(si + oi) % 3];
                let model = ts.model(*o);
                let desc = || format!("{} || {}", model.describe(), br.describe());
                ctl.case(idx, &desc, &mut |cx| {
                    cx.nontrivial = nontrivial;
                    run_one(&model, &sols, &cfg, br, cx);
                });
            }
        }
    }
}

pub fn run_one(model: &Model, sols: &[Vec<i32>], cfg: &Cfg, br: &BrancherSpec, cx: &mut CaseCtx) {
    verif_tap::configure(Default::default());
    let opts = match &model.cons[0] {
        Con::Cumulative { opts, .. } => *opts,
        _ => unreachable!(),
    };
    let variant = format!(
        "m{}e{}h{}s{}b{}",
        opts.method, opts.explanation, opts.holes as u8, opts.sequence as u8, opts.incremental_backtracking as u8
    );
    let before = cx.acc.total_violations;
    run_inner(model, sols, cfg, br, cx, &variant);
    if cx.acc.total_violations > before {
        let (overuse, negative) = match &model.cons[0] {
            Con::Cumulative { starts, usages, cap, .. } => (
                usages.iter().any(|u| u > cap),
                starts.iter().any(|v| {
                    let d = &model.vars[v.var];
                    (v.a as i64 * d.lb() as i64 + v.b as i64).min(v.a as i64 * d.ub() as i64 + v.b as i64) < 0
                }),
            ),
            _ => unreachable!(),
        };
        cx.acc.count(&format!("failing_cases[method={} overuse={} negative_start={}]", opts.method, overuse, negative), 1);
    }
}

fn run_inner(model: &Model, sols: &[Vec<i32>], cfg: &Cfg, br: &BrancherSpec, cx: &mut CaseCtx, variant: &str) {
    let mut b = match guard(|| build(model, cfg)) {
        Ok(b) => b,
        Err(e) => {
            cx.violation(format!("{}:post", panic_sig(&e)), format!("[{variant}] panic while posting: {e}"));
            return;
        }
    };
    if let Some(k) = b.first_error() {
        cx.acc.outcome("post-error");
        let psols = Model::new(model.vars.clone(), model.cons[..=k].to_vec()).solutions();
        if let Some(w) = psols.first() {
            cx.violation(
                "spurious-post-error",
                format!("[{variant}] posting constraint #{k} failed but {w:?} satisfies the constraints posted so far"),
            );
        }
        return;
    }
    let ids = b.ids.clone();
    let (got, end) = with_brancher(
        br,
        &mut b.solver,
        &ids,
        cfg.seed,
        Iterate {
            ids: &ids,
            term: &mut Indefinite,
            cap: sols.len() + 2,
            stop_after: None,
            on_solution: &mut |_, _| {},
        },
    );
    let c = verif_tap::counters();
    cx.acc.count("conflicts", c.conflicts);
    match end {
        IterEnd::Finished | IterEnd::Unsat => {
            cx.acc.outcome(if got.is_empty() { "unsat" } else { "solutions" });
            if let Some(bad) = got.iter().find(|g| !sols.contains(g)) {
                cx.violation(
                    "cumulative-accepts-non-solution",
                    format!("[{variant}] produced {bad:?} which overloads the resource"),
                );
            }
            if let Some(miss) = sols.iter().find(|s| !got.contains(s)) {
                cx.violation(
                    "cumulative-loses-solution",
                    format!("[{variant}] never produced solution {miss:?} ({} of {} found)", got.len(), sols.len()),
                );
            }
            let mut g = got.clone();
            g.sort();
            g.dedup();
            if g.len() != got.len() {
                cx.violation("repeated-solution", format!("[{variant}] a solution was produced twice"));
            }
        }
        IterEnd::Panic(e) => cx.violation(format!("{}:iterate", panic_sig(&e)), format!("[{variant}] panic: {e}")),
        other => cx.violation(
            format!("iteration-ended-{other:?}").chars().take(40).collect::<String>(),
            format!("[{variant}] iteration ended with {other:?} after {} solutions", got.len()),
        ),
    }
}
