//! C11, front ends: the command-line solver interrupted at every poll of its time budget.
//!
//! The binary is built with the verification hooks; `PUMPKIN_VERIF_STOP_AT_POLL=k` makes every
//! `TimeBudget` of the process answer "stop" from its k-th poll on (the wall clock is not
//! consulted). For every input, k runs from 0 upwards until a run is no longer interrupted.
//! Whatever k is, the output must not contain a wrong definitive claim: FlatZinc blocks are
//! solutions, `==========` only after all solutions (satisfy -a) or after an optimal one
//! (optimisation), `=====UNSATISFIABLE=====` / `s UNSATISFIABLE` only for models without
//! solution, `s OPTIMUM FOUND` only with the true optimum, model lines satisfy the (hard) clauses.
use std::collections::BTreeMap;
use std::collections::BTreeSet;

use crate::orch::CaseCtx;
use crate::orch::Ctl;
use crate::orch::Tier;
use crate::props::c13;
use crate::props::c14;
use crate::props::c15;

fn max_k(tier: Tier) -> u64 {
    if tier.quick() {
        40
    } else {
        400
    }
}

enum Input {
    Fzn(c13::Case),
    Cnf(c14::Formula),
    Wcnf(c15::Wcnf),
}

fn inputs(tier: Tier) -> Vec<Input> {
    let mut v = vec![];
    let cs = c13::cases(Tier::Quick);
    let stride = if tier.quick() { 61 } else { 7 };
    for (i, c) in cs.into_iter().enumerate() {
        // optimisation and all-solutions runs are the ones that can claim completeness
        let interesting = !matches!(c.f.goal, c13::Goal::Satisfy) || c.flags.contains(&"-a");
        if i % stride == 0 || (interesting && i % (stride / 3 + 1) == 0) {
            v.push(Input::Fzn(c));
        }
    }
    let fs = c14::structured_formulas(Tier::Quick);
    for f in fs.into_iter().step_by(if tier.quick() { 4 } else { 1 }) {
        v.push(Input::Cnf(f));
    }
    for f in c14::formulas(3, 3, 2).into_iter().step_by(if tier.quick() { 9001 } else { 601 }) {
        v.push(Input::Cnf(f));
    }
    for w in c15::instances(Tier::Quick).into_iter().step_by(if tier.quick() { 97 } else { 11 }) {
        v.push(Input::Wcnf(w));
    }
    v
}

pub fn len(tier: Tier) -> usize {
    inputs(tier).len()
}

pub fn run(ctl: &mut Ctl, first_idx: u64) {
    let tier = ctl.tier;
    let dir = c14::scratch_dir();
    for (i, input) in inputs(tier).iter().enumerate() {
        let my = first_idx + i as u64;
        let desc = || match input {
            Input::Fzn(c) => format!("cli fzn {:?} :: {}", c.flags, c.f.text().replace('\n', " ")),
            Input::Cnf(f) => format!("cli cnf :: {}", f.canonical().replace('\n', " / ")),
            Input::Wcnf(w) => format!("cli wcnf :: {}", w.text().replace('\n', " / ")),
        };
        ctl.case(my, &desc, &mut |cx| {
            cx.nontrivial = true;
            let (ext, text, flags): (&str, String, Vec<String>) = match input {
                Input::Fzn(c) => ("fzn", c.f.text(), c.flags.iter().map(|s| s.to_string()).chain(["-t".to_string(), "100000000".to_string()]).collect()),
                Input::Cnf(f) => ("cnf", f.canonical(), vec![]),
                Input::Wcnf(w) => ("wcnf", w.text(), vec!["-t".into(), "100000000".into()]),
            };
            let path = format!("{dir}/c11_{my}.{ext}");
            std::fs::write(&path, &text).expect("write input");
            let fzn_truth = match input {
                Input::Fzn(c) => Some(c13::solutions(&c.f)),
                _ => None,
            };
            // an input on which the uninterrupted binary already fails is not judged here (that is
            // the business of C13-C15)
            {
                let mut args: Vec<&str> = vec![&path];
                args.extend(flags.iter().map(|s| s.as_str()));
                let out = c14::run_cli_hooked(&args, 20, u64::MAX / 2).expect("run the hooked cli");
                if out.status != Some(0) {
                    cx.acc.count("inputs_failing_without_interrupt", 1);
                    cx.nontrivial = false;
                    let _ = std::fs::remove_file(&path);
                    return;
                }
            }
            let mut k = 0;
            loop {
                let mut args: Vec<&str> = vec![&path];
                args.extend(flags.iter().map(|s| s.as_str()));
                let out = c14::run_cli_hooked(&args, 20, k).expect("run the hooked cli");
                let fired = out.stderr.contains("pumpkin_verif: time budget fired");
                cx.acc.count(if fired { "interrupted_cli_runs" } else { "uninterrupted_cli_runs" }, 1);
                let what = format!("time budget fires at poll {k}");
                match out.status {
                    Some(0) => {}
                    Some(124) => cx.violation(format!("cli-hang:{ext}"), format!("{what}: no exit within 20 s")),
                    st => {
                        cx.violation(
                            format!("cli-crash:{ext}:{}", out.panic_site().unwrap_or_else(|| "no-panic-message".into())),
                            format!("{what}: exit status {st:?}; stdout {:?}; stderr {:?}", out.stdout.chars().take(200).collect::<String>(), out.stderr.chars().take(300).collect::<String>()),
                        );
                    }
                }
                if out.status == Some(0) {
                    match input {
                        Input::Fzn(c) => judge_fzn(c, fzn_truth.as_ref().unwrap(), &out.stdout, fired, &what, cx),
                        Input::Cnf(f) => judge_cnf(f, &out.stdout, fired, &what, cx),
                        Input::Wcnf(w) => judge_wcnf(w, &out.stdout, fired, &what, cx),
                    }
                }
                if !fired {
                    cx.acc.count("polls_total", k);
                    break;
                }
                k += 1;
                if k > max_k(tier) {
                    cx.acc.count("cli_inputs_cut_at_max_k", 1);
                    break;
                }
            }
            let _ = std::fs::remove_file(&path);
        });
    }
}

fn judge_fzn(c: &c13::Case, sols: &[c13::Asg], stdout: &str, fired: bool, what: &str, cx: &mut CaseCtx) {
    let f = &c.f;
    let p = c13::parse_output(stdout);
    if !p.garbage.is_empty() {
        cx.violation("cli-fzn-unparsable-output", format!("{what}: lines {:?}", p.garbage));
        return;
    }
    let projections: BTreeSet<BTreeMap<String, Vec<i64>>> = sols.iter().map(|a| c13::project(f, a)).collect();
    for b in &p.blocks {
        if !projections.contains(b) {
            cx.violation("cli-fzn-block-is-not-a-solution", format!("{what}: printed block {b:?} does not extend to a solution"));
        }
    }
    if p.unsat && !sols.is_empty() {
        cx.violation("cli-fzn-spurious-unsat", format!("{what}: =====UNSATISFIABLE===== but {:?} is a solution", sols[0]));
    }
    if p.unknown {
        cx.acc.outcome("fzn-unknown");
        if !fired {
            cx.violation("cli-fzn-unknown-without-interrupt", format!("{what}: =====UNKNOWN===== although the budget never fired"));
        }
    }
    if p.complete {
        cx.acc.outcome(if fired { "fzn-complete-despite-late-interrupt" } else { "fzn-complete" });
        match &f.goal {
            c13::Goal::Satisfy => {
                if c.flags.contains(&"-a") {
                    let printed: BTreeSet<BTreeMap<String, Vec<i64>>> = p.blocks.iter().cloned().collect();
                    if printed != projections {
                        cx.violation(
                            "cli-fzn-complete-claimed-but-solutions-missing",
                            format!("{what}: ========== after {} of {} distinct solution projections", printed.len(), projections.len()),
                        );
                    }
                }
            }
            c13::Goal::Minimize(g) | c13::Goal::Maximize(g) => {
                let maximise = matches!(f.goal, c13::Goal::Maximize(_));
                let best = if maximise { sols.iter().map(|a| a[g]).max() } else { sols.iter().map(|a| a[g]).min() };
                match (best, p.blocks.last()) {
                    (None, _) => cx.violation("cli-fzn-optimality-claimed-on-unsat", format!("{what}: ========== but the model has no solution")),
                    (Some(_), None) => cx.violation("cli-fzn-optimality-claimed-without-solution", format!("{what}: ========== without a solution block")),
                    (Some(best), Some(last)) => {
                        let optimal: BTreeSet<BTreeMap<String, Vec<i64>>> = sols.iter().filter(|a| a[g] == best).map(|a| c13::project(f, a)).collect();
                        if !optimal.contains(last) {
                            cx.violation(
                                "cli-fzn-optimality-claimed-for-non-optimal-solution",
                                format!("{what}: ========== after {last:?}, but the optimum is {g} = {best}"),
                            );
                        }
                    }
                }
            }
        }
    } else if !fired && !p.unsat && !(matches!(f.goal, c13::Goal::Satisfy) && !c.flags.contains(&"-a")) {
        cx.violation("cli-fzn-no-completion-without-interrupt", format!("{what}: the budget never fired but the output has no completion marker: {stdout:?}"));
    }
}

fn model_of(v_line: &str, n: usize) -> Option<Vec<bool>> {
    let mut asg = vec![None; n];
    for tok in v_line[2..].split_whitespace() {
        if let Ok(l) = tok.parse::<i32>() {
            if l != 0 && (l.unsigned_abs() as usize) <= n {
                asg[l.unsigned_abs() as usize - 1] = Some(l > 0);
            }
        }
    }
    asg.into_iter().collect()
}

fn judge_cnf(f: &c14::Formula, stdout: &str, fired: bool, what: &str, cx: &mut CaseCtx) {
    let s_line = stdout.lines().find(|l| l.starts_with("s "));
    match s_line {
        Some("s SATISFIABLE") => {
            cx.acc.outcome("cnf-sat");
            match stdout.lines().find(|l| l.starts_with("v ")).and_then(|v| model_of(v, f.n)) {
                Some(a) if f.holds(&a) => {}
                other => cx.violation("cli-cnf-bad-model", format!("{what}: s SATISFIABLE with model {other:?}")),
            }
        }
        Some("s UNSATISFIABLE") => {
            cx.acc.outcome("cnf-unsat");
            if let Some(w) = f.satisfiable() {
                cx.violation("cli-cnf-spurious-unsat", format!("{what}: s UNSATISFIABLE but {w:?} is a model"));
            }
        }
        Some("s UNKNOWN") => {
            cx.acc.outcome("cnf-unknown");
            if !fired {
                cx.violation("cli-cnf-unknown-without-interrupt", format!("{what}: s UNKNOWN although the budget never fired"));
            }
        }
        other => cx.violation("cli-cnf-no-status-line", format!("{what}: status line {other:?} in {stdout:?}")),
    }
}

fn judge_wcnf(w: &c15::Wcnf, stdout: &str, fired: bool, what: &str, cx: &mut CaseCtx) {
    let opt = w.optimum();
    let s_line = stdout.lines().find(|l| l.starts_with("s "));
    let last_o: Option<u64> = stdout.lines().filter(|l| l.starts_with("o ")).last().and_then(|l| l[2..].trim().parse().ok());
    let model = stdout.lines().find(|l| l.starts_with("v ")).and_then(|v| model_of(v, w.n));
    if let Some(a) = &model {
        match w.cost(a) {
            None => cx.violation("cli-wcnf-model-violates-hard", format!("{what}: model {a:?}")),
            Some(c) => {
                // (the o lines of an interrupted run are upper bounds: relaxation variables may be
                // set although their soft clause is satisfied; the model must be at least as good)
                if let Some(o) = last_o {
                    if c > o {
                        cx.violation("cli-wcnf-model-worse-than-o-line", format!("{what}: the model costs {c}, the last o line says {o}"));
                    }
                }
            }
        }
    }
    if let (Some(o), Some(best)) = (last_o, opt) {
        if o < best {
            cx.violation("cli-wcnf-o-line-below-optimum", format!("{what}: o line {o}, but the optimum is {best}"));
        }
    }
    match s_line {
        Some("s OPTIMUM FOUND") => {
            cx.acc.outcome("wcnf-optimum");
            if opt.is_none() || last_o != opt || model.is_none() {
                cx.violation("cli-wcnf-wrong-optimum-claim", format!("{what}: s OPTIMUM FOUND with o = {last_o:?}, model {model:?}; the true optimum is {opt:?}"));
            }
        }
        Some("s UNSATISFIABLE") => {
            cx.acc.outcome("wcnf-unsat");
            if let Some(o) = opt {
                cx.violation("cli-wcnf-spurious-unsat", format!("{what}: s UNSATISFIABLE but the optimum is {o}"));
            }
        }
        Some("s SATISFIABLE") => {
            cx.acc.outcome("wcnf-sat");
            if model.is_none() || opt.is_none() {
                cx.violation("cli-wcnf-sat-without-model", format!("{what}: s SATISFIABLE, model {model:?}, optimum {opt:?}"));
            }
        }
        Some("s UNKNOWN") => {
            cx.acc.outcome("wcnf-unknown");
            if !fired {
                cx.violation("cli-wcnf-unknown-without-interrupt", format!("{what}: s UNKNOWN although the budget never fired"));
            }
        }
        other => cx.violation("cli-wcnf-no-status-line", format!("{what}: status line {other:?} in {stdout:?}")),
    }
}
