//! C01 / C02 / C03: the model sweep. Every model of the bounded model spaces is posted into a
//! real solver under a set of configurations and branchers and solved through the public API;
//! every answer is compared with the brute-force reference.
use std::cell::RefCell;

use pumpkin_solver::termination::Indefinite;
use pumpkin_solver::verif_tap;
use serde_json::json;
use serde_json::Value;

use crate::drive::*;
use crate::gen;
use crate::orch::*;
use crate::refmodel::*;
use crate::solve::*;

#[derive(Clone, Copy, Debug, PartialEq, Eq)]
pub enum Which {
    C01,
    C02,
    C03,
}

pub mod chain;

pub struct Sweep {
    which: Which,
}

impl Sweep {
    pub fn new(which: Which) -> Self {
        Sweep { which }
    }
}

pub fn model_space(tier: Tier) -> Vec<Model> {
    let mut v = vec![];
    match tier {
        Tier::Quick => {
            v.extend(gen::m1(0));
            v.extend(gen::m2(0).into_iter().step_by(7));
            v.extend(gen::m3(0));
            v.extend(gen::m4(0));
            v.extend(gen::m5(0));
            v.extend(gen::m6(0));
            v.extend(gen::m7(0));
            v.extend(gen::m8(0));
            v.extend(gen::m9(0));
            v.extend(gen::m10(0));
            v.extend(gen::m11(0));
            v.extend(gen::m12(0));
            v.extend(decision_profile_models());
        }
        Tier::Thorough => {
            v.extend(gen::m1(1));
            v.extend(gen::m2(1).into_iter().step_by(3));
            v.extend(gen::m3(1).into_iter().step_by(2));
            v.extend(gen::m4(1));
            v.extend(gen::m5(1));
            v.extend(gen::m6(1));
            v.extend(gen::m7(1));
            v.extend(gen::m8(1));
            v.extend(gen::m9(1));
            v.extend(gen::m10(1));
            v.extend(gen::m11(1));
            v.extend(gen::m12(1));
            v.extend(decision_profile_models());
        }
    }
    v
}

pub fn combos(tier: Tier) -> Vec<(Cfg, BrancherSpec)> {
    let mut v = vec![];
    match tier {
        Tier::Quick => {
            let cfgs = Cfg::slice();
            let brs = BrancherSpec::slice();
            // a diagonal-ish slice: every cfg with two branchers, every brancher with two cfgs
            for (i, c) in cfgs.iter().enumerate() {
                v.push((*c, brs[i % brs.len()].clone()));
                v.push((*c, brs[(i + 1) % brs.len()].clone()));
            }
            // restarts only happen with a brancher that does not declare them pointless (static
            // selector pairs do): the restart-forcing configurations also run with the default one
            for i in [1, 3, 4] {
                v.push((cfgs[i], BrancherSpec::Default));
            }
        }
        Tier::Thorough => {
            for c in Cfg::slice() {
                for b in BrancherSpec::slice() {
                    v.push((c, b));
                }
            }
            v.push((Cfg::default_cfg(), BrancherSpec::DynamicSplit(0, 2)));
            v.push((Cfg::default_cfg(), BrancherSpec::Alternating(0, 1, 4)));
            v.push((Cfg::default_cfg(), BrancherSpec::Alternating(3, 0, 1)));
        }
    }
    v
}

/// Reference solutions of the first `k` constraints.
fn prefix_solutions(model: &Model, k: usize) -> Vec<Vec<i32>> {
    Model::new(model.vars.clone(), model.cons[..k].to_vec()).solutions()
}

pub fn tap_learned_only() {
    verif_tap::configure(verif_tap::TapConfig {
        learned: true,
        ..Default::default()
    });
}

/// Check every learned nogood drained from the tap: no reference solution in `alive` may satisfy
/// all of its predicates.
pub fn check_learned(
    ids: &[pumpkin_solver::variables::DomainId],
    alive: &[Vec<i32>],
    cx: &mut CaseCtx,
    what: &str,
) {
    check_learned_events(ids, alive, cx, what, verif_tap::drain())
}

pub fn check_learned_events(
    ids: &[pumpkin_solver::variables::DomainId],
    alive: &[Vec<i32>],
    cx: &mut CaseCtx,
    what: &str,
    events: Vec<verif_tap::Event>,
) {
    // at most 20000 learned nogoods are checked per case (long enumerations of the larger models
    // learn hundreds of thousands); the rest is counted
    thread_local! { static BUDGET: std::cell::Cell<(u64, u32)> = const { std::cell::Cell::new((u64::MAX, 0)) }; }
    for ev in events {
        if let verif_tap::Event::Learned { predicates, .. } = ev {
            let used = BUDGET.with(|b| {
                let (idx, n) = b.get();
                let n = if idx == cx.idx { n + 1 } else { 1 };
                b.set((cx.idx, n));
                n
            });
            if used > 20_000 {
                cx.acc.count("learned_nogoods_beyond_the_per_case_cap", 1);
                continue;
            }
            cx.acc.count("learned_nogoods_checked", 1);
            let mut preds = vec![];
            let mut skip = false;
            for p in &predicates {
                // the always-true dummy domain may appear as [d0 >= 1] etc.
                match from_predicate(ids, *p) {
                    Some(q) => preds.push(q),
                    None => {
                        if p.get_domain().id == 0 {
                            // predicates over the dummy variable (fixed to 1)
                            let q = from_predicate(&[p.get_domain()], *p).unwrap();
                            if !q.holds_val(1) {
                                skip = true; // nogood contains a false predicate: trivially entailed
                            }
                        } else {
                            skip = true;
                            cx.acc.count("learned_nogoods_over_unknown_vars", 1);
                        }
                    }
                }
            }
            if skip {
                continue;
            }
            if let Some(w) = alive.iter().find(|a| preds.iter().all(|p| p.holds(a))) {
                let txt = preds
                    .iter()
                    .map(|p| p.to_string())
                    .collect::<Vec<_>>()
                    .join("&");
                cx.violation(
                    "learned-nogood-not-entailed",
                    format!("{what}: learned nogood {txt} is satisfied by solution {w:?} of the model"),
                );
            }
        }
    }
}

impl Property for Sweep {
    fn id(&self) -> &'static str {
        match self.which {
            Which::C01 => "C01",
            Which::C02 => "C02",
            Which::C03 => "C03",
        }
    }
    fn level(&self) -> &'static str {
        "exploration"
    }
    fn rule(&self, tier: Tier) -> String {
        format!(
            "Exhaustive enumeration of the bounded model spaces M1 (one constraint instance of every library constructor over <=3 variables, all combinations of {} domain shapes), a stride of M2 (pairs of constraints) and M3 (conflict-rich triples over 4-5 variables), each crossed with {} (solver configuration, brancher) combinations; a case = (model, configuration, brancher); all cases are distinct by construction; a case is non-trivial when the reference solution set of the model is neither empty nor the whole assignment space. (C02 additionally runs a family of deep implication chains x_0<=x_1<=...<=x_n with n around the recursion limits of conflict analysis, see sweep/chain.rs.) Oracle: brute-force reference model (i128 arithmetic) sharing no code with the solver.",
            gen::domain_shapes(!tier.quick()).len(),
            combos(tier).len()
        )
    }
    fn assumptions(&self) -> Vec<String> {
        vec![
            "division denominators never contain 0 (documented precondition)".into(),
            "domains have <=4 values, <=5 variables per model (small-scope hypothesis)".into(),
            "restart-after-every-conflict is not combined with a forgetting nogood database (may legitimately livelock)".into(),
            "the reference model is validated by metamorphic self-checks at start-up".into(),
        ]
    }
    fn extra(&self, tier: Tier) -> Value {
        json!({
            "models": model_space(tier).len(),
            "combos_per_model": combos(tier).len(),
        })
    }

    fn run(&self, ctl: &mut Ctl) {
        let tier = ctl.tier;
        let models = model_space(tier);
        let combos = combos(tier);
        let nc = combos.len() as u64;
        for (mi, model) in models.iter().enumerate() {
            let base = mi as u64 * nc;
            // cheap pre-filter: is any combo of this model wanted by this shard?
            let mut any = false;
            for ci in 0..nc {
                if ctl.want(base + ci) {
                    any = true;
                    break;
                }
            }
            if !any {
                continue;
            }
            let sols = model.solutions();
            let nontrivial = gen::nontrivial(model, sols.len());
            for (ci, (cfg, br)) in combos.iter().enumerate() {
                let idx = base + ci as u64;
                let desc = || format!("{} || {} || {}", model.describe(), cfg.describe(), br.describe());
                ctl.case(idx, &desc, &mut |cx| {
                    cx.nontrivial = nontrivial;
                    match self.which {
                        Which::C01 => run_c01(model, &sols, cfg, br, cx),
                        Which::C02 => run_c02(model, &sols, cfg, br, cx),
                        Which::C03 => run_c03(model, &sols, cfg, br, cx),
                    }
                });
            }
        }
        if self.which == Which::C02 {
            chain::run(ctl, models.len() as u64 * nc);
        }
    }
}

fn check_returned(model: &Model, asg: &[i32], cx: &mut CaseCtx, api: &str) {
    if let Err(e) = check_assignment(model, asg) {
        let kind = model
            .cons
            .iter()
            .find(|c| !c.holds(asg))
            .map(|c| c.kind_name())
            .unwrap_or("domain");
        cx.violation(
            format!("bad-solution:{kind}:{api}"),
            format!("{api} returned a non-solution: {e}"),
        );
    }
}

/// C01: every API that hands out solutions.
fn run_c01(model: &Model, sols: &[Vec<i32>], cfg: &Cfg, br: &BrancherSpec, cx: &mut CaseCtx) {
    verif_tap::configure(Default::default());
    // satisfy
    {
        let mut b = match guard(|| build(model, cfg)) {
            Ok(b) => b,
            Err(e) => {
                cx.violation(format!("{}:build", panic_sig(&e)), format!("panic while posting: {e}"));
                return;
            }
        };
        if b.first_error().is_none() {
            let ids = b.ids.clone();
            let r = with_brancher(
                br,
                &mut b.solver,
                &ids,
                cfg.seed,
                Satisfy {
                    ids: &ids,
                    term: &mut Indefinite,
                },
            );
            match r {
                Ok(SatOut::Sat(a)) => {
                    cx.acc.count("satisfy_solutions", 1);
                    check_returned(model, &a, cx, "satisfy")
                }
                Ok(SatOut::Broken(e)) => cx.violation("partial-solution:satisfy", e),
                Ok(_) => {}
                Err(e) => cx.violation(format!("{}:satisfy", panic_sig(&e)), format!("panic in satisfy: {e}")),
            }
        } else {
            cx.acc.count("post_failed", 1);
        }
    }
    // iteration (bounded: up to 3 solutions here; the complete iteration is C03's business)
    {
        let mut b = match guard(|| build(model, cfg)) {
            Ok(b) => b,
            Err(_) => return,
        };
        if b.first_error().is_none() {
            let ids = b.ids.clone();
            let (got, end) = with_brancher(
                br,
                &mut b.solver,
                &ids,
                cfg.seed,
                Iterate {
                    ids: &ids,
                    term: &mut Indefinite,
                    cap: sols.len() + 2,
                    stop_after: Some(3),
                    on_solution: &mut |_, _| {},
                },
            );
            for a in &got {
                cx.acc.count("iterator_solutions", 1);
                check_returned(model, a, cx, "iterator");
            }
            match end {
                IterEnd::Panic(e) => cx.violation(format!("{}:iterate", panic_sig(&e)), format!("panic in iteration: {e}")),
                IterEnd::Broken(e) => cx.violation("partial-solution:iterator", e),
                _ => {}
            }
        }
    }
    // optimisation: objective = first variable, and a negatively scaled view of the last one
    let n = model.vars.len();
    for (objective, maximise, unsat_sat) in [
        (View::id(0), false, false),
        (View::id(0), true, true),
        (View::new(n - 1, -2, 1), false, true),
        (View::new(n - 1, -2, 1), true, false),
    ] {
        let mut b = match guard(|| build(model, cfg)) {
            Ok(b) => b,
            Err(_) => return,
        };
        if b.first_error().is_some() {
            continue;
        }
        let ids = b.ids.clone();
        let cb = RefCell::new(vec![]);
        let obj = b.view(&objective);
        let r = with_brancher(
            br,
            &mut b.solver,
            &ids,
            cfg.seed,
            Optimise {
                ids: &ids,
                term: &mut Indefinite,
                objective: obj,
                maximise,
                unsat_sat,
                callback_solutions: &cb,
            },
        );
        let api = if unsat_sat { "optimise(unsat-sat)" } else { "optimise(sat-unsat)" };
        for s in cb.borrow().iter() {
            cx.acc.count("callback_solutions", 1);
            match s {
                Ok(a) => check_returned(model, a, cx, &format!("{api} callback")),
                Err(e) => cx.violation("partial-solution:callback", e.clone()),
            }
        }
        match r {
            Ok(OptOut::Optimal(a)) | Ok(OptOut::Satisfiable(a)) => {
                cx.acc.count("optimise_solutions", 1);
                check_returned(model, &a, cx, api)
            }
            Ok(OptOut::Broken(e)) => cx.violation("partial-solution:optimise", e),
            Ok(_) => {}
            Err(e) => cx.violation(format!("{}:optimise", panic_sig(&e)), format!("panic in {api}: {e}")),
        }
    }
    // assumptions: first nontrivial predicate of the first two variables
    {
        let mut b = match guard(|| build(model, cfg)) {
            Ok(b) => b,
            Err(_) => return,
        };
        if b.first_error().is_none() {
            let ids = b.ids.clone();
            let mut assumptions = vec![];
            let mut ref_assumptions = vec![];
            for v in 0..model.vars.len().min(2) {
                if let Some(p) = gen::nontrivial_preds_of(v, &model.vars[v]).into_iter().nth(cx.idx as usize % 3) {
                    assumptions.push(b.pred(&p));
                    ref_assumptions.push(p);
                }
            }
            let r = with_brancher(
                br,
                &mut b.solver,
                &ids,
                cfg.seed,
                Assume {
                    ids: &ids,
                    term: &mut Indefinite,
                    assumptions: &assumptions,
                    extract: 0,
                },
            );
            match r {
                Ok(AssumeOut::Sat(a)) => {
                    cx.acc.count("assumption_solutions", 1);
                    check_returned(model, &a, cx, "satisfy_under_assumptions");
                    if let Some(p) = ref_assumptions.iter().find(|p| !p.holds(&a)) {
                        cx.violation(
                            "bad-solution:assumption-violated",
                            format!("satisfy_under_assumptions returned {a:?} which violates assumption {p}"),
                        );
                    }
                }
                Ok(AssumeOut::Broken(e)) => cx.violation("partial-solution:assumptions", e),
                Ok(_) => {}
                Err(e) => cx.violation(format!("{}:assume", panic_sig(&e)), format!("panic in satisfy_under_assumptions: {e}")),
            }
        }
    }
    let _ = sols;
}

/// C02: post errors and Unsatisfiable only for models without solutions; termination; every
/// learned nogood entailed by the model.
fn run_c02(model: &Model, sols: &[Vec<i32>], cfg: &Cfg, br: &BrancherSpec, cx: &mut CaseCtx) {
    tap_learned_only();
    let mut b = match guard(|| build(model, cfg)) {
        Ok(b) => b,
        Err(e) => {
            cx.violation(format!("{}:build", panic_sig(&e)), format!("panic while posting: {e}"));
            return;
        }
    };
    if let Some(k) = b.first_error() {
        cx.acc.count("post_errors", 1);
        cx.acc.outcome("post-error");
        let psols = prefix_solutions(model, k + 1);
        if let Some(w) = psols.first() {
            cx.violation(
                format!("spurious-post-error:{}", model.cons[k].kind_name()),
                format!(
                    "posting constraint #{k} `{}` returned an infeasibility error but the constraints posted so far have solution {w:?}",
                    model.cons[k]
                ),
            );
        }
        return;
    }
    let ids = b.ids.clone();
    let r = with_brancher(
        br,
        &mut b.solver,
        &ids,
        cfg.seed,
        Satisfy {
            ids: &ids,
            term: &mut Indefinite,
        },
    );
    check_learned(&ids, sols, cx, "satisfy");
    let c = verif_tap::counters();
    cx.acc.count("conflicts", c.conflicts);
    cx.acc.count("restarts", c.restarts);
    cx.acc.count("nogoods_deleted", c.nogoods_deleted);
    cx.acc.count("runs_with_conflict", (c.conflicts > 0) as u64);
    cx.acc.count("no_learning_backtracks", c.no_learning_backtracks);
    match r {
        Ok(SatOut::Sat(_)) | Ok(SatOut::Broken(_)) => {
            cx.acc.outcome("sat");
            if sols.is_empty() {
                cx.violation("sat-on-unsat-model", "satisfy returned a solution but the model has none");
            }
        }
        Ok(SatOut::Unsat) => {
            cx.acc.outcome("unsat");
            if let Some(w) = sols.first() {
                cx.violation(
                    "spurious-unsat",
                    format!("satisfy reported Unsatisfiable but {w:?} is a solution"),
                );
            }
        }
        Ok(SatOut::Unknown) => cx.violation(
            "unknown-without-termination",
            "satisfy returned Unknown although the termination condition never fires",
        ),
        Err(e) => cx.violation(format!("{}:satisfy", panic_sig(&e)), format!("panic in satisfy: {e}")),
    }

    // Second phase: a complete iteration on a fresh solver. Every nogood learned while looking
    // for solution k+1 must be entailed by the model together with the blocking clauses of the
    // k solutions already returned, i.e. no solution that is still to come may satisfy it.
    tap_learned_only();
    let mut b = match guard(|| build(model, cfg)) {
        Ok(b) => b,
        Err(_) => return,
    };
    let ids = b.ids.clone();
    let mut returned: Vec<Vec<i32>> = vec![];
    let mut pending: Vec<(usize, Vec<verif_tap::Event>)> = vec![];
    let (_, end) = with_brancher(
        br,
        &mut b.solver,
        &ids,
        cfg.seed,
        Iterate {
            ids: &ids,
            term: &mut Indefinite,
            cap: sols.len() + 2,
            stop_after: None,
            on_solution: &mut |k, a| {
                pending.push((k, verif_tap::drain()));
                returned.push(a.to_vec());
            },
        },
    );
    pending.push((returned.len(), verif_tap::drain()));
    for (k, events) in pending {
        // solutions not blocked while step k was running
        let alive: Vec<Vec<i32>> = sols
            .iter()
            .filter(|s| !returned[..k.min(returned.len())].contains(s))
            .cloned()
            .collect();
        check_learned_events(&ids, &alive, cx, &format!("iteration step {k}"), events);
    }
    if matches!(end, IterEnd::Finished | IterEnd::Unsat) && returned.len() < sols.len() {
        cx.acc.count("iterations_that_lost_solutions", 1);
    }
}

/// C03: complete iteration yields the reference solution set exactly once each.
fn run_c03(model: &Model, sols: &[Vec<i32>], cfg: &Cfg, br: &BrancherSpec, cx: &mut CaseCtx) {
    verif_tap::configure(Default::default());
    let mut b = match guard(|| build(model, cfg)) {
        Ok(b) => b,
        Err(e) => {
            cx.violation(format!("{}:build", panic_sig(&e)), format!("panic while posting: {e}"));
            return;
        }
    };
    if b.first_error().is_some() {
        cx.acc.outcome("post-error");
        return; // judged by C02
    }
    let ids = b.ids.clone();
    let mut problems: Vec<(String, String)> = vec![];
    let mut seen: Vec<Vec<i32>> = vec![];
    let (got, end) = with_brancher(
        br,
        &mut b.solver,
        &ids,
        cfg.seed,
        Iterate {
            ids: &ids,
            term: &mut Indefinite,
            cap: sols.len() + 2,
            stop_after: None,
            on_solution: &mut |k, a| {
                // prefix checks
                if !sols.iter().any(|s| s == a) {
                    problems.push((
                        "non-solution".into(),
                        format!("iteration step {k} produced {a:?} which is not a solution"),
                    ));
                }
                if seen.iter().any(|s| s == a) {
                    problems.push((
                        "repeated-solution".into(),
                        format!("iteration step {k} repeated solution {a:?}"),
                    ));
                }
                seen.push(a.to_vec());
            },
        },
    );
    for (sig, msg) in problems {
        cx.violation(sig, msg);
    }
    cx.acc.count("solutions_iterated", got.len() as u64);
    match end {
        IterEnd::Finished => {
            cx.acc.outcome("finished");
            if sols.is_empty() {
                cx.violation("finished-on-unsat", "iterator reported Finished although it had produced... the model has no solutions");
            }
            if got.len() < sols.len() {
                let missing = sols.iter().find(|s| !got.contains(s)).unwrap();
                cx.violation(
                    "missing-solution",
                    format!(
                        "iteration finished after {} of {} solutions; e.g. {missing:?} was never produced",
                        got.len(),
                        sols.len()
                    ),
                );
            }
        }
        IterEnd::Unsat => {
            cx.acc.outcome("unsat");
            if !sols.is_empty() {
                cx.violation(
                    "spurious-unsat",
                    format!("iterator reported Unsatisfiable but the model has {} solutions", sols.len()),
                );
            }
        }
        IterEnd::Unknown => cx.violation("unknown-without-termination", "iterator returned Unknown"),
        IterEnd::CapExceeded => cx.violation(
            "too-many-solutions",
            format!("iterator produced more than {} solutions", sols.len() + 1),
        ),
        IterEnd::Panic(e) => cx.violation(format!("{}:iterate", panic_sig(&e)), format!("panic in iteration: {e}")),
        IterEnd::Broken(e) => cx.violation("partial-solution:iterator", e),
        IterEnd::Stopped => unreachable!(),
    }

    // The same iteration, interrupted once (the termination condition fires at exactly one poll,
    // chosen by the case index) and continued on the same iterator after the Unknown: still every
    // solution exactly once.
    let Ok(mut b) = guard(|| build(model, cfg)) else { return };
    let ids = b.ids.clone();
    let mut once = CountingTermination::from(1 + cx.idx % 6, true);
    let (got, end, unknowns) = with_brancher(
        br,
        &mut b.solver,
        &ids,
        cfg.seed,
        IterateResuming {
            ids: &ids,
            term: &mut once,
            cap: sols.len() + 2,
            max_unknowns: 3,
        },
    );
    if unknowns > 0 {
        cx.acc.count("iterations_resumed_after_an_interrupt", 1);
    }
    match end {
        IterEnd::Finished | IterEnd::Unsat => {
            let mut sorted = got.clone();
            sorted.sort();
            let before = sorted.len();
            sorted.dedup();
            let mut reference = sols.to_vec();
            reference.sort();
            if sorted.len() != before {
                cx.violation("repeated-solution:resumed", format!("the resumed iteration produced a solution twice: {got:?}"));
            } else if sorted != reference {
                cx.violation("missing-solution:resumed", format!("the resumed iteration produced {} of {} solutions", sorted.len(), reference.len()));
            }
        }
        IterEnd::Panic(e) => cx.violation(format!("{}:iterate-resumed", panic_sig(&e)), format!("panic in the resumed iteration: {e}")),
        other => cx.violation("resumed-iteration-does-not-finish", format!("the resumed iteration ended with {other:?}")),
    }
}

/// The decision-profile task sets of C08 (two profiles separated by a short gap, the first one
/// created by a decision, side constraints leaving only the solutions right in front of the second
/// profile) under pointwise explanations with sequence generation for every propagation method,
/// and under the default options.
fn decision_profile_models() -> Vec<Model> {
    let mut v = vec![];
    for ts in crate::props::c08::decision_profile_sets() {
        v.push(ts.model(CumOpts::default_opts()));
        for method in 0..6u8 {
            v.push(ts.model(CumOpts { holes: false, explanation: 2, sequence: true, method, incremental_backtracking: false }));
        }
    }
    v
}
