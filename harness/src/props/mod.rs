use crate::orch::Property;

pub mod c04;
pub mod c05;
pub mod c06;
pub mod c07;
pub mod c08;
pub mod c09;
pub mod c10;
pub mod c11;
pub mod c11_cli;
pub mod c12;
pub mod c13;
pub mod c14;
pub mod c15;
pub mod c16;
pub mod c17;
pub mod c18;
pub mod c19;
pub mod c20;
pub mod sweep;

pub fn lookup(id: &str) -> Box<dyn Property> {
    match id {
        "C01" => Box::new(sweep::Sweep::new(sweep::Which::C01)),
        "C02" => Box::new(sweep::Sweep::new(sweep::Which::C02)),
        "C03" => Box::new(sweep::Sweep::new(sweep::Which::C03)),
        "C04" => Box::new(c04::C04),
        "C05" => Box::new(c05::C05),
        "C06" => Box::new(c06::C06),
        "C07" => Box::new(c07::C07),
        "C08" => Box::new(c08::C08),
        "C09" => Box::new(c09::C09),
        "C10" => Box::new(c10::C10),
        "C11" => Box::new(c11::C11),
        "C12" => Box::new(c12::C12),
        "C13" => Box::new(c13::C13),
        "C14" => Box::new(c14::C14),
        "C15" => Box::new(c15::C15),
        "C16" => Box::new(c16::C16),
        "C17" => Box::new(c17::C17),
        "C18" => Box::new(c18::C18),
        "C19" => Box::new(c19::C19),
        "C20" => Box::new(c20::C20),
        _ => panic!("unknown property {id}"),
    }
}
