use crate::orch::Property;

pub mod c04;
pub mod c05;
pub mod c08;
pub mod c17;
pub mod sweep;

pub fn lookup(id: &str) -> Box<dyn Property> {
    match id {
        "C01" => Box::new(sweep::Sweep::new(sweep::Which::C01)),
        "C02" => Box::new(sweep::Sweep::new(sweep::Which::C02)),
        "C03" => Box::new(sweep::Sweep::new(sweep::Which::C03)),
        "C04" => Box::new(c04::C04),
        "C05" => Box::new(c05::C05),
        "C08" => Box::new(c08::C08),
        "C17" => Box::new(c17::C17),
        _ => panic!("unknown property {id}"),
    }
}
