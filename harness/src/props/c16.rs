//! C16: constraint arithmetic is exact over the whole admitted integer range.
//!
//! The range cannot be enumerated; it is made finite by a boundary alphabet (anchors at the
//! 32-bit limits, at +-2^30, +-2^16, +-sqrt(2^31) and around 0) which is then enumerated
//! completely: tiny windows of values placed at every anchor, coefficients and right-hand sides
//! from the same alphabet. The reference evaluates in i128.
use std::cell::RefCell;

use pumpkin_solver::termination::Indefinite;
use pumpkin_solver::verif_tap;
use serde_json::json;
use serde_json::Value;

use crate::drive::*;
use crate::orch::*;
use crate::refmodel::*;
use crate::solve::*;

pub struct C16;

const MIN: i64 = i32::MIN as i64;
const MAX: i64 = i32::MAX as i64;

fn anchors(tier: Tier) -> Vec<i64> {
    let mut v = vec![
        MIN,
        MIN + 1,
        -(1 << 30),
        -65536,
        -46341,
        -46340,
        -1,
        0,
        1,
        46340,
        46341,
        65536,
        1 << 30,
        MAX - 1,
        MAX,
    ];
    if !tier.quick() {
        v.extend([-65537, -2, 2, 65535, (1 << 30) + 1, -(1 << 30) - 1, 32768, -32768]);
    }
    v.sort();
    v
}

fn fits(v: i128) -> bool {
    v >= MIN as i128 && v <= MAX as i128
}

/// Windows of <= 3 values at an anchor (clipped to i32).
fn windows(a: i64, tier: Tier) -> Vec<VarDecl> {
    let clip = |vals: Vec<i64>| -> Option<VarDecl> {
        let vals: Vec<i32> = vals
            .into_iter()
            .filter(|v| *v >= MIN && *v <= MAX)
            .map(|v| v as i32)
            .collect();
        if vals.is_empty() {
            None
        } else {
            Some(VarDecl::from_values(&vals))
        }
    };
    let mut out = vec![];
    out.extend(clip(vec![a, a + 1]));
    out.extend(clip(vec![a - 1, a]));
    if !tier.quick() {
        out.extend(clip(vec![a - 1, a, a + 1]));
        out.extend(clip(vec![a - 1, a + 1])); // hole at the anchor
        out.extend(clip(vec![a]));
    } else {
        out.extend(clip(vec![a - 1, a + 1]));
    }
    out.dedup();
    out
}

fn coefficients(tier: Tier) -> Vec<i32> {
    if tier.quick() {
        vec![1, -1, 2, -2, 46341, -65536]
    } else {
        vec![1, -1, 2, -2, 3, 46340, 46341, -46341, 65536, -65536, 1 << 30, i32::MAX, i32::MIN]
    }
}

/// A view a*x+b is admissible for a declaration if every value of the view fits in i32.
fn view_ok(v: &View, d: &VarDecl) -> bool {
    d.values.iter().all(|x| fits(v.eval_val(*x))) && fits(v.a as i128 * d.lb() as i128) && fits(v.a as i128 * d.ub() as i128)
}

pub fn cases(tier: Tier) -> Vec<Model> {
    let an = anchors(tier);
    let co = coefficients(tier);
    let mut out: Vec<Model> = vec![];
    let all_windows: Vec<VarDecl> = an.iter().flat_map(|a| windows(*a, tier)).collect();

    // ---- linear constraints with 1 and 2 terms ----
    let lin_windows: Vec<&VarDecl> = if tier.quick() {
        all_windows.iter().step_by(2).collect()
    } else {
        all_windows.iter().collect()
    };
    for d0 in &lin_windows {
        for &c0 in &co {
            let v0 = View::new(0, c0, 0);
            if !view_ok(&v0, d0) {
                continue;
            }
            // one term
            let t0: Vec<i128> = d0.values.iter().map(|x| v0.eval_val(*x)).collect();
            let mut rhs: Vec<i128> = vec![t0[0], t0[0] - 1, *t0.last().unwrap(), MAX as i128, MIN as i128, 0];
            rhs.retain(|r| fits(*r));
            rhs.sort();
            rhs.dedup();
            for r in &rhs {
                for k in 0..3 {
                    let terms = vec![v0];
                    let c = match k {
                        0 => Con::LinLe(terms, *r as i32),
                        1 => Con::LinEq(terms, *r as i32),
                        _ => Con::LinNe(terms, *r as i32),
                    };
                    out.push(Model::new(vec![(*d0).clone()], vec![c]));
                }
            }
            // two terms
            for d1 in lin_windows.iter().step_by(if tier.quick() { 3 } else { 2 }) {
                for &c1 in &co {
                    let v1 = View::new(1, c1, 0);
                    if !view_ok(&v1, d1) {
                        continue;
                    }
                    let sums: Vec<i128> = d0
                        .values
                        .iter()
                        .flat_map(|x| d1.values.iter().map(move |y| v0.eval_val(*x) + v1.eval_val(*y)))
                        .collect();
                    let lo = *sums.iter().min().unwrap();
                    let hi = *sums.iter().max().unwrap();
                    let mut rhs: Vec<i128> = vec![lo, lo - 1, hi, hi - 1, MAX as i128, MIN as i128];
                    rhs.retain(|r| fits(*r));
                    // if the sum range lies outside i32 the clipped right-hand sides matter most
                    rhs.sort();
                    rhs.dedup();
                    for r in &rhs {
                        for k in 0..3 {
                            let terms = vec![v0, v1];
                            let c = match k {
                                0 => Con::LinLe(terms, *r as i32),
                                1 => Con::LinEq(terms, *r as i32),
                                _ => Con::LinNe(terms, *r as i32),
                            };
                            out.push(Model::new(vec![(*d0).clone(), (*d1).clone()], vec![c]));
                        }
                    }
                }
            }
        }
    }

    // ---- three-variable arithmetic: the result window sits at the true result (if it fits) and
    // at the limits ----
    let ar_windows: Vec<&VarDecl> = all_windows.iter().step_by(if tier.quick() { 2 } else { 1 }).collect();
    let result_windows = |vals: Vec<i128>| -> Vec<VarDecl> {
        let mut ws: Vec<VarDecl> = vec![];
        for v in vals {
            if fits(v) {
                ws.extend(windows(v as i64, Tier::Quick).into_iter().take(2));
            }
        }
        ws.extend(windows(MAX, Tier::Quick).into_iter().take(1));
        ws.extend(windows(MIN, Tier::Quick).into_iter().take(1));
        ws.extend(windows(0, Tier::Quick).into_iter().take(1));
        ws.dedup();
        ws
    };
    for d0 in &ar_windows {
        // abs
        let vals: Vec<i128> = vec![(d0.lb() as i128).abs(), (d0.ub() as i128).abs()];
        for rw in result_windows(vals) {
            out.push(Model::new(
                vec![(*d0).clone(), rw.clone()],
                vec![Con::Abs(View::id(0), View::id(1))],
            ));
        }
        for d1 in ar_windows.iter().step_by(if tier.quick() { 3 } else { 1 }) {
            let (a, b) = (d0.lb() as i128, d1.lb() as i128);
            let (a2, b2) = (d0.ub() as i128, d1.ub() as i128);
            // times
            for rw in result_windows(vec![a * b, a2 * b2]) {
                out.push(Model::new(
                    vec![(*d0).clone(), (*d1).clone(), rw.clone()],
                    vec![Con::Times(View::id(0), View::id(1), View::id(2))],
                ));
            }
            // plus
            for rw in result_windows(vec![a + b, a2 + b2]) {
                out.push(Model::new(
                    vec![(*d0).clone(), (*d1).clone(), rw.clone()],
                    vec![Con::Plus(View::id(0), View::id(1), View::id(2))],
                ));
            }
            // division (denominator must not contain 0)
            if !d1.values.contains(&0) {
                for rw in result_windows(vec![a / b, a2 / b2]) {
                    out.push(Model::new(
                        vec![(*d0).clone(), (*d1).clone(), rw.clone()],
                        vec![Con::Div(View::id(0), View::id(1), View::id(2))],
                    ));
                }
            }
            // maximum / element / binary relations
            for rw in result_windows(vec![a.max(b), a2.max(b2)]).into_iter().take(3) {
                out.push(Model::new(
                    vec![(*d0).clone(), (*d1).clone(), rw.clone()],
                    vec![Con::Max(vec![View::id(0), View::id(1)], View::id(2))],
                ));
                out.push(Model::new(
                    vec![(*d0).clone(), (*d1).clone(), rw.clone(), VarDecl::interval(0, 1)],
                    vec![Con::Element {
                        index: View::id(3),
                        array: vec![View::id(0), View::id(1)],
                        rhs: View::id(2),
                    }],
                ));
            }
            out.push(Model::new(
                vec![(*d0).clone(), (*d1).clone()],
                vec![Con::BinLt(View::id(0), View::id(1))],
            ));
            out.push(Model::new(
                vec![(*d0).clone(), (*d1).clone()],
                vec![Con::BinNe(View::id(0), View::new(1, -1, 0))],
            ));
        }
    }
    out
}

impl Property for C16 {
    fn id(&self) -> &'static str {
        "C16"
    }
    fn level(&self) -> &'static str {
        "exploration"
    }
    fn rule(&self, tier: Tier) -> String {
        format!(
            "Boundary alphabet: {} anchors (i32::MIN, MIN+1, +-2^30, +-65536, +-46340/46341, -1, 0, 1, MAX-1, MAX{}); every variable domain is a window of <=3 values at an anchor (contiguous or with a hole); coefficients from {:?}; right-hand sides at the extreme sums and at the i32 limits. Enumerated completely: linear <=/==/!= with 1 and 2 terms, plus, times, division, absolute, maximum, element, binary </!= with result windows at the true result and at the limits; for every model: post result, complete solution set and (for the last variable) both optimisation procedures are compared with the i128 reference. A case = one model (distinct by construction); non-trivial = some but not all assignments are solutions. Exhaustive over the boundary alphabet, not over 2^32.",
            anchors(tier).len(),
            if tier.quick() { "" } else { ", and more" },
            coefficients(tier)
        )
    }
    fn assumptions(&self) -> Vec<String> {
        vec![
            "every single term a*x of a view is representable in i32 (what the view API can hold); sums and products of terms may exceed it".into(),
            "the harness is built like a release build (overflow checks off), so wrap-around shows as a wrong answer, not as a panic".into(),
            "division denominators exclude 0".into(),
        ]
    }
    fn extra(&self, tier: Tier) -> Value {
        json!({"models": cases(tier).len()})
    }
    fn run(&self, ctl: &mut Ctl) {
        let tier = ctl.tier;
        let ms = cases(tier);
        let listed = ListedInputs::load(tier);
        for (i, model) in ms.iter().enumerate() {
            let desc = || model.describe();
            ctl.case(i as u64, &desc, &mut |cx| {
                // The known findings of this property (32-bit arithmetic near the limits) are
                // identified by family (violation kind x constraint kind x class) AND by the
                // inputs that fail: a violation on an input that is not listed for its family is
                // reported under a signature that no known finding matches.
                let found = cx.capture(|cx| run_one(model, cx));
                let suffix = std::mem::take(&mut cx.sig_suffix);
                for (sig, msg) in found {
                    let full = format!("{sig}:{suffix}");
                    record_input(tier, &full, cx.idx);
                    if listed.contains(&full, cx.idx) || suffix.ends_with("interior") {
                        cx.sig_suffix = suffix.clone();
                    } else {
                        cx.sig_suffix = format!("{}!input-not-listed", suffix.replace(':', "@"));
                    }
                    cx.violation(sig, msg);
                }
                cx.sig_suffix.clear();
            });
        }
    }
}

/// The failing inputs listed for the known findings: per tier and full signature, ranges of case
/// indices (file /verif/known_c16_inputs.json, written by tools/gen_c16_families.py from recording
/// runs; never at check time).
struct ListedInputs {
    ranges: std::collections::HashMap<String, Vec<(u64, u64)>>,
}

impl ListedInputs {
    fn load(tier: Tier) -> Self {
        let mut ranges = std::collections::HashMap::new();
        if let Ok(text) = std::fs::read_to_string("/verif/known_c16_inputs.json") {
            if let Ok(v) = serde_json::from_str::<Value>(&text) {
                let key = if tier.quick() { "quick" } else { "thorough" };
                if let Some(m) = v[key].as_object() {
                    for (sig, rs) in m {
                        let list: Vec<(u64, u64)> = rs
                            .as_array()
                            .map(|a| a.iter().filter_map(|r| Some((r[0].as_u64()?, r[1].as_u64()?))).collect())
                            .unwrap_or_default();
                        let _ = ranges.insert(sig.clone(), list);
                    }
                }
            }
        }
        ListedInputs { ranges }
    }
    fn contains(&self, sig: &str, idx: u64) -> bool {
        self.ranges.get(sig).is_some_and(|rs| {
            // ranges are sorted and disjoint
            let k = rs.partition_point(|r| r.1 < idx);
            k < rs.len() && rs[k].0 <= idx
        })
    }
}

/// Recording mode (PV_C16_RECORD=<directory>): every violation is appended as
/// `tier <tab> signature <tab> index` to a file per worker process.
fn record_input(tier: Tier, sig: &str, idx: u64) {
    use std::io::Write;
    let Ok(dir) = std::env::var("PV_C16_RECORD") else { return };
    let path = format!("{dir}/{}.txt", std::process::id());
    if let Ok(mut f) = std::fs::OpenOptions::new().create(true).append(true).open(path) {
        let _ = writeln!(f, "{}\t{sig}\t{idx}", if tier.quick() { "quick" } else { "thorough" });
    }
}

/// Where the difficulty of a model lies: `at-limits` if a domain bound or right-hand side is
/// within 1 of i32::MIN / i32::MAX; `overflowing` if, for some assignment, an intermediate value
/// that an implementation may form in exact arithmetic - a term, its negation, a partial or total
/// sum, a slack (right-hand side minus the other terms), a product, a difference - lies outside
/// the symmetric range [-(2^31-1), 2^31-1] (i32::MIN itself counts: it cannot be negated);
/// `interior` otherwise.
fn classify(model: &Model) -> &'static str {
    let near = |v: i32| (v as i64) <= MIN + 1 || (v as i64) >= MAX - 1;
    let at_limits = model.vars.iter().any(|d| near(d.lb()) || near(d.ub()));
    let sym = |v: i128| v >= -(MAX as i128) && v <= MAX as i128;
    let mut overflowing = false;
    let c = &model.cons[0];
    model.for_each_assignment(|a| {
        let mut vals: Vec<i128> = vec![];
        match c {
            Con::LinLe(t, r) | Con::LinEq(t, r) | Con::LinNe(t, r) => {
                let terms: Vec<i128> = t.iter().map(|v| v.eval(a)).collect();
                let total: i128 = terms.iter().sum();
                vals.push(total);
                vals.push(*r as i128 - total);
                let mut partial = 0i128;
                for x in &terms {
                    partial += x;
                    vals.push(*x);
                    vals.push(partial);
                    // slack left for this term, and the sum of the others
                    vals.push(*r as i128 - (total - x));
                    vals.push(total - x);
                }
            }
            Con::Times(x, y, z) => {
                vals.extend([x.eval(a), y.eval(a), z.eval(a), x.eval(a) * y.eval(a)]);
            }
            Con::Plus(x, y, z) => {
                vals.extend([x.eval(a), y.eval(a), z.eval(a), x.eval(a) + y.eval(a), z.eval(a) - x.eval(a), z.eval(a) - y.eval(a)]);
            }
            Con::BinLt(x, y) | Con::BinNe(x, y) | Con::BinEq(x, y) | Con::BinLe(x, y) => {
                vals.extend([x.eval(a), y.eval(a), x.eval(a) - y.eval(a), x.eval(a) - y.eval(a) + 1, x.eval(a) - y.eval(a) - 1]);
            }
            Con::Abs(x, y) => vals.extend([x.eval(a), y.eval(a)]),
            Con::Div(x, y, z) => {
                // the propagator bounds the numerator by products of denominator and quotient
                let (n, d, q) = (x.eval(a), y.eval(a), z.eval(a));
                vals.extend([n, d, q, d * q, d * (q + 1), d * (q - 1)]);
            }
            Con::Max(xs, y) | Con::Min(xs, y) => {
                vals.extend(xs.iter().map(|v| v.eval(a)));
                vals.push(y.eval(a));
            }
            Con::Element { index, array, rhs } => {
                vals.push(index.eval(a));
                vals.extend(array.iter().map(|v| v.eval(a)));
                vals.push(rhs.eval(a));
            }
            _ => {}
        }
        if vals.iter().any(|v| !sym(*v)) {
            overflowing = true;
        }
    });
    let rhs_at_limit = match c {
        Con::LinLe(_, r) | Con::LinEq(_, r) | Con::LinNe(_, r) => near(*r),
        _ => false,
    };
    if at_limits || rhs_at_limit {
        "at-limits"
    } else if overflowing {
        "overflowing"
    } else {
        "interior"
    }
}

fn run_one(model: &Model, cx: &mut CaseCtx) {
    verif_tap::configure(Default::default());
    let sols = model.solutions();
    cx.nontrivial = crate::gen::nontrivial(model, sols.len());
    cx.sig_suffix = format!("{}:{}", model.cons[0].kind_name(), classify(model));
    let cfg = Cfg::default_cfg();
    let mut b = match guard(|| build(model, &cfg)) {
        Ok(b) => b,
        Err(e) => {
            cx.violation(format!("{}:post", panic_sig(&e)), format!("panic while posting: {e}"));
            return;
        }
    };
    if b.first_error().is_some() {
        cx.acc.outcome("post-error");
        if let Some(w) = sols.first() {
            cx.violation(
                "spurious-infeasibility-at-post",
                format!("post reported infeasibility but {w:?} is a solution (unbounded arithmetic)"),
            );
        }
        return;
    }
    let ids = b.ids.clone();
    let br = BrancherSpec::Indep(0, 0);
    let (mut got, end) = with_brancher(
        &br,
        &mut b.solver,
        &ids,
        42,
        Iterate {
            ids: &ids,
            term: &mut Indefinite,
            cap: sols.len() + 2,
            stop_after: None,
            on_solution: &mut |_, _| {},
        },
    );
    match end {
        IterEnd::Finished | IterEnd::Unsat => {
            cx.acc.outcome(if got.is_empty() { "unsat" } else { "solutions" });
            got.sort();
            if let Some(bad) = got.iter().find(|g| !sols.contains(g)) {
                cx.violation("invented-solution", format!("{bad:?} was produced but is not a solution in unbounded arithmetic"));
            }
            if let Some(miss) = sols.iter().find(|s| !got.contains(s)) {
                cx.violation(
                    "lost-solution",
                    format!("{miss:?} is a solution in unbounded arithmetic but was not produced ({} of {})", got.len(), sols.len()),
                );
            }
        }
        IterEnd::Panic(e) => cx.violation(format!("{}:iterate", panic_sig(&e)), format!("panic: {e}")),
        other => cx.violation("iteration-inconclusive", format!("{other:?}")),
    }
    // optimisation of the last variable (objective bounds near the limits)
    let last = model.vars.len() - 1;
    for (maximise, unsat_sat) in [(false, false), (true, false), (false, true), (true, true)] {
        let Ok(mut b) = guard(|| build(model, &cfg)) else { return };
        if b.first_error().is_some() {
            return;
        }
        let ids = b.ids.clone();
        let cb = RefCell::new(vec![]);
        let objective = b.view(&View::id(last));
        let r = with_brancher(
            &br,
            &mut b.solver,
            &ids,
            42,
            Optimise {
                ids: &ids,
                term: &mut Indefinite,
                objective,
                maximise,
                unsat_sat,
                callback_solutions: &cb,
            },
        );
        let best = if maximise {
            sols.iter().map(|s| s[last]).max()
        } else {
            sols.iter().map(|s| s[last]).min()
        };
        let api = format!("{}:{}", if maximise { "max" } else { "min" }, if unsat_sat { "unsat-sat" } else { "sat-unsat" });
        match r {
            Ok(OptOut::Optimal(a)) => {
                if !sols.contains(&a) || Some(a[last]) != best {
                    cx.violation(format!("wrong-optimum:{api}"), format!("Optimal {a:?}; the true optimum of x{last} is {best:?}"));
                }
            }
            Ok(OptOut::Unsat) => {
                if best.is_some() {
                    cx.violation(format!("spurious-unsat:{api}"), "optimise reported Unsatisfiable on a satisfiable model");
                }
            }
            Ok(other) => cx.violation(format!("optimise-inconclusive:{api}"), format!("{other:?}")),
            Err(e) => cx.violation(format!("{}:{api}", panic_sig(&e)), format!("panic in optimise: {e}")),
        }
    }
}
