//! C17: every explanation given by a propagator follows from its constraint.
//!
//! Scripted-scheduler model checking: for every model, all decision scripts with at most `bound`
//! deviations from the default choice (within the first `depth` decision points) are executed
//! on the real solver (complete solution iteration, so that the search runs through conflicts,
//! backjumps and re-propagation); the tap records every propagation with its reason at
//! propagation time, every explicit conflict, and every reason as re-computed during conflict
//! analysis. Each is checked against the *reference* constraint by exhaustion.
use pumpkin_solver::predicates::Predicate;
use pumpkin_solver::termination::Indefinite;
use pumpkin_solver::variables::DomainId;
use pumpkin_solver::verif_tap;
use pumpkin_solver::verif_tap::Event;
use serde_json::json;
use serde_json::Value;

use crate::drive::*;
use crate::gen;
use crate::orch::*;
use crate::props::c08;
use crate::refmodel::*;
use crate::solve::*;

pub struct C17;

pub struct Bounds {
    pub deviations: usize,
    pub depth: usize,
}

fn bounds(tier: Tier, group: usize) -> Bounds {
    match (tier, group) {
        (Tier::Quick, 0) => Bounds { deviations: 1, depth: 5 },
        (Tier::Quick, 3) => Bounds { deviations: 1, depth: 4 },
        (Tier::Quick, 4) => Bounds { deviations: 1, depth: 3 },
        (Tier::Thorough, 4) => Bounds { deviations: 1, depth: 3 },
        (Tier::Thorough, 3) => Bounds { deviations: 2, depth: 5 },
        (Tier::Quick, _) => Bounds { deviations: 1, depth: 3 },
        (Tier::Thorough, 0) => Bounds { deviations: 2, depth: 6 },
        (Tier::Thorough, _) => Bounds { deviations: 1, depth: 6 },
    }
}

/// (group, model): group 0 = single constraint models, 1 = two-constraint models,
/// 2 = cumulative variants, 3 = two-profile cumulative sets, 4 = long-profile cumulative sets
fn models(tier: Tier) -> Vec<(usize, Model)> {
    let mut v: Vec<(usize, Model)> = vec![];
    match tier {
        Tier::Quick => {
            v.extend(gen::m1(0).into_iter().map(|m| (0, m)));
            v.extend(gen::m2(0).into_iter().step_by(23).map(|m| (1, m)));
            v.extend(gen::m3(0).into_iter().step_by(9).map(|m| (1, m)));
            v.extend(gen::m5(0).into_iter().step_by(9).map(|m| (1, m)));
            v.extend(gen::m7(0).into_iter().step_by(7).map(|m| (1, m)));
        }
        Tier::Thorough => {
            v.extend(gen::m1(1).into_iter().step_by(4).map(|m| (0, m)));
            v.extend(gen::m2(1).into_iter().step_by(29).map(|m| (1, m)));
            v.extend(gen::m3(1).into_iter().step_by(5).map(|m| (1, m)));
            v.extend(gen::m5(1).into_iter().step_by(3).map(|m| (1, m)));
            v.extend(gen::m7(1).into_iter().step_by(2).map(|m| (1, m)));
        }
    }
    // arithmetic over factors of both signs whose sign is only decided during search (the sign
    // premises of multiplication / division / absolute-value reasons)
    {
        let w = View::id;
        let iv = VarDecl::interval;
        let sign_models: Vec<(Vec<VarDecl>, Con)> = vec![
            (vec![iv(-3, 1), iv(-5, 1), iv(4, 6)], Con::Times(w(0), w(1), w(2))),
            (vec![iv(-2, 2), iv(-2, 2), iv(1, 4)], Con::Times(w(0), w(1), w(2))),
            (vec![iv(-2, 2), iv(-3, 1), iv(-4, -1)], Con::Times(w(0), w(1), w(2))),
            (vec![iv(-1, 3), iv(-2, 2), iv(-3, 3)], Con::Times(w(0), View::new(1, -1, 0), w(2))),
            (vec![iv(-4, 4), VarDecl::from_values(&[-2, -1, 1, 2]), iv(-2, 2)], Con::Div(w(0), w(1), w(2))),
            (vec![iv(-4, 4), VarDecl::from_values(&[-2, 1, 3]), iv(1, 2)], Con::Div(w(0), w(1), w(2))),
            (vec![iv(-3, 3), iv(0, 3)], Con::Abs(w(0), w(1))),
            (vec![iv(-3, 2), iv(1, 3)], Con::Abs(View::new(0, -1, 1), w(1))),
        ];
        for (vars, c) in sign_models {
            v.push((0, Model::new(vars, vec![c])));
        }
    }
    // cumulative: 3-task sets under all 144 variants
    let sets: Vec<c08::TaskSet> = c08::task_sets(tier)
        .into_iter()
        .filter(|t| t.starts.len() == 3)
        .collect();
    let stride = if tier.quick() { sets.len() / 12 + 1 } else { sets.len() / 150 + 1 };
    for ts in sets.iter().step_by(stride) {
        for o in CumOpts::all() {
            v.push((2, ts.model(o)));
        }
    }
    // reified and half-reified constraints with a free reification literal (scripted exploration;
    // the ordered enumerations of the same models follow in `run`)
    v.extend(crate::props::c09::reified_models(tier).into_iter().map(|m| (1, m)));
    v.extend(crate::props::c09::self_referential_models().into_iter().map(|m| (1, m)));
    // cumulative: several profiles propagating on one task in a single invocation
    let long = c08::long_profile_sets().len();
    let all = c08::profile_sets();
    for (k, ts) in all.iter().enumerate() {
        if tier.quick() && k + long >= all.len() + 2 {
            continue;
        }
        for o in CumOpts::all() {
            v.push((if k + long >= all.len() { 4 } else { 3 }, ts.model(o)));
        }
    }
    v
}

pub fn tap_all() {
    verif_tap::configure(verif_tap::TapConfig {
        propagations: true,
        analysis: true,
        learned: std::env::var("PV_TRACE").is_ok(),
        decisions: std::env::var("PV_TRACE").is_ok(),
        snapshot_domains: true,
    });
}

/// Reference view of one predicate (None: over a variable that is not part of the model).
fn rp(ids: &[DomainId], p: Predicate) -> Option<Pred> {
    from_predicate(ids, p)
}

fn dummy_true(p: Predicate) -> Option<bool> {
    if p.get_domain().id == 0 {
        let q = from_predicate(&[p.get_domain()], p).unwrap();
        Some(q.holds_val(1))
    } else {
        None
    }
}

struct Checker<'a> {
    model: &'a Model,
    ids: &'a [DomainId],
    /// all assignments over the declared domains together with the bitmask of constraints they
    /// satisfy
    table: Vec<(Vec<i32>, u64)>,
}

impl<'a> Checker<'a> {
    fn new(model: &'a Model, ids: &'a [DomainId]) -> Self {
        let mut table = vec![];
        model.for_each_assignment(|a| {
            let mut mask = 0u64;
            for (k, c) in model.cons.iter().enumerate() {
                if c.holds(a) {
                    mask |= 1 << k;
                }
            }
            table.push((a.to_vec(), mask));
        });
        Checker { model, ids, table }
    }

    /// Translate predicates; Err(()) if one is over an unknown variable; Ok(None) if the
    /// conjunction contains a false predicate over the dummy variable (trivially unsatisfiable).
    fn conj(&self, ps: &[Predicate]) -> Result<Option<Vec<Pred>>, ()> {
        let mut out = vec![];
        for p in ps {
            match rp(self.ids, *p) {
                Some(q) => out.push(q),
                None => match dummy_true(*p) {
                    Some(true) => {}
                    Some(false) => return Ok(None),
                    None => return Err(()),
                },
            }
        }
        Ok(Some(out))
    }

    /// mask of constraints that must hold: the tagged constraint, or all of them for untagged
    /// events (nogood propagator: clauses and learned nogoods).
    fn mask(&self, tag: Option<std::num::NonZero<u32>>) -> u64 {
        match tag {
            Some(t) => 1u64 << (t.get() - 1),
            None => (1u64 << self.model.cons.len()) - 1,
        }
    }

    /// Find an assignment with `mask` constraints holding, all of `reason` true and `concl`
    /// (if any) false.
    fn counterexample(
        &self,
        mask: u64,
        reason: &[Pred],
        concl: Option<&Pred>,
        alive: Option<&dyn Fn(&[i32]) -> bool>,
    ) -> Option<Vec<i32>> {
        for (a, m) in &self.table {
            if m & mask != mask {
                continue;
            }
            if !reason.iter().all(|p| p.holds(a)) {
                continue;
            }
            if let Some(c) = concl {
                if c.holds(a) {
                    continue;
                }
            }
            if let Some(f) = alive {
                if !f(a) {
                    continue;
                }
            }
            return Some(a.clone());
        }
        None
    }
}

fn fmt_preds(ps: &[Pred]) -> String {
    ps.iter().map(|p| p.to_string()).collect::<Vec<_>>().join(" & ")
}

/// Check all drained events. `blocked`: solutions already excluded by blocking clauses (only
/// relevant for untagged events, which may rely on those clauses).
pub fn check_events(
    model: &Model,
    ids: &[DomainId],
    events: Vec<Event>,
    snapshots: Vec<Vec<Vec<i32>>>,
    blocked: &[Vec<i32>],
    cx: &mut CaseCtx,
    ck: &Checker,
) {
    let not_blocked = |a: &[i32]| !blocked.iter().any(|b| b == a);
    let trace = std::env::var("PV_TRACE").is_ok();
    // domains before the propagation being looked at: (snapshot id, domain per domain id)
    let mut current: Option<(usize, Vec<Vec<i32>>)> = None;
    // the previous propagation of the same invocation, not yet applied to `current`
    let mut pending: Option<Pred> = None;
    for ev in events {
        if trace {
            eprintln!("EV {ev:?}");
        }
        match ev {
            Event::Propagation {
                tag,
                name,
                predicate,
                reason,
                reason_positions,
                trail_position,
                lazy,
                snapshot,
                ..
            } => {
                cx.acc.count("propagation_events", 1);
                if snapshot == usize::MAX {
                    current = None;
                    pending = None;
                } else if current.as_ref().map(|c| c.0) != Some(snapshot) {
                    current = Some((snapshot, snapshots[snapshot].clone()));
                    pending = None;
                }
                if let (Some(q), Some((_, doms))) = (pending.take(), current.as_mut()) {
                    doms[ids[q.var].id as usize].retain(|v| q.holds_val(*v));
                }
                pending = rp(ids, predicate);
                if lazy {
                    cx.acc.count("lazy_reasons_at_propagation", 1);
                }
                let Some(concl) = rp(ids, predicate) else {
                    cx.acc.count("events_over_unknown_vars", 1);
                    continue;
                };
                let Ok(r) = ck.conj(&reason) else {
                    cx.acc.count("events_over_unknown_vars", 1);
                    continue;
                };
                let Some(r) = r else { continue };
                let kind = tag
                    .map(|t| model.cons[t.get() as usize - 1].kind_name())
                    .unwrap_or("nogood");
                // (a) the stated facts hold in the state in which the reason is given
                for (p, pos) in reason.iter().zip(&reason_positions) {
                    // The recorded position is derived from the domain *after* the propagation; when
                    // the propagation emptied the domain of the reason's own variable it can name
                    // the propagation itself although the fact held before. A fact that holds on
                    // the domains as they were before this propagation (the snapshot taken before
                    // the propagator was invoked, narrowed by its earlier propagations in the same
                    // invocation) holds in the state in which the reason is given.
                    let held_before = || {
                        rp(ids, *p).is_some_and(|q| {
                            current.as_ref().is_some_and(|(_, doms)| {
                                let dom = &doms[ids[q.var].id as usize];
                                !dom.is_empty() && dom.iter().all(|v| q.holds_val(*v))
                            })
                        })
                    };
                    let ok = matches!(pos, Some(q) if *q < trail_position)
                        || dummy_true(*p) == Some(true)
                        || held_before();
                    if !ok {
                        cx.violation(
                            format!("reason-not-true-at-propagation:{kind}:{name}"),
                            format!(
                                "{name} (tag {tag:?}) propagated {concl} with reason [{}] but {} does not hold before the propagation (became true at {:?}, propagation at trail position {})",
                                fmt_preds(&r),
                                rp(ids, *p).map(|x| x.to_string()).unwrap_or_default(),
                                pos,
                                trail_position
                            ),
                        );
                        break;
                    }
                }
                // (b) entailment by exhaustion
                let mask = ck.mask(tag);
                let alive: Option<&dyn Fn(&[i32]) -> bool> =
                    if tag.is_none() { Some(&not_blocked) } else { None };
                if let Some(w) = ck.counterexample(mask, &r, Some(&concl), alive) {
                    cx.violation(
                        format!("reason-not-sufficient:{kind}:{name}"),
                        format!(
                            "{name} (tag {tag:?}) propagated {concl} with reason [{}]; but {w:?} satisfies the constraint and the reason and not the propagated fact",
                            fmt_preds(&r)
                        ),
                    );
                }
                // (c) the propagated fact removes no value used by a solution of the constraint
                // within the domains the propagator saw
                if snapshot != usize::MAX && tag.is_some() {
                    let snap = &snapshots[snapshot];
                    let in_domains = |a: &[i32]| {
                        ids.iter()
                            .enumerate()
                            .all(|(i, id)| snap[id.id as usize].contains(&a[i]))
                    };
                    let f = |a: &[i32]| in_domains(a);
                    if let Some(w) = ck.counterexample(mask, &[], Some(&concl), Some(&f)) {
                        cx.violation(
                            format!("propagation-removes-supported-value:{kind}:{name}"),
                            format!(
                                "{name} (tag {tag:?}) propagated {concl} although {w:?} is a solution of the constraint within the current domains {:?}",
                                ids.iter().map(|id| snap[id.id as usize].clone()).collect::<Vec<_>>()
                            ),
                        );
                    }
                }
            }
            Event::Conflict {
                tag,
                name,
                nogood,
                truth,
                at_initialisation,
                ..
            } => {
                cx.acc.count("conflict_events", 1);
                let Ok(r) = ck.conj(&nogood) else {
                    cx.acc.count("events_over_unknown_vars", 1);
                    continue;
                };
                let Some(r) = r else { continue };
                let kind = tag
                    .map(|t| model.cons[t.get() as usize - 1].kind_name())
                    .unwrap_or("nogood");
                if let Some(i) = truth.iter().position(|t| *t != Some(true)) {
                    cx.violation(
                        format!("conflict-reason-not-true:{kind}:{name}"),
                        format!(
                            "{name} (tag {tag:?}, at_initialisation={at_initialisation}) reported conflict [{}] but {} is {:?}",
                            fmt_preds(&r),
                            rp(ids, nogood[i]).map(|x| x.to_string()).unwrap_or_default(),
                            truth[i]
                        ),
                    );
                }
                let mask = ck.mask(tag);
                let alive: Option<&dyn Fn(&[i32]) -> bool> =
                    if tag.is_none() { Some(&not_blocked) } else { None };
                if let Some(w) = ck.counterexample(mask, &r, None, alive) {
                    cx.violation(
                        format!("conflict-not-justified:{kind}:{name}"),
                        format!(
                            "{name} (tag {tag:?}) reported conflict [{}]; but {w:?} satisfies the constraint and all of these facts",
                            fmt_preds(&r)
                        ),
                    );
                }
            }
            Event::AnalysisReason {
                tag,
                name,
                predicate,
                reason,
                truth,
                ..
            } => {
                cx.acc.count("analysis_reason_events", 1);
                let Some(concl) = rp(ids, predicate) else {
                    cx.acc.count("events_over_unknown_vars", 1);
                    continue;
                };
                let Ok(r) = ck.conj(&reason) else {
                    cx.acc.count("events_over_unknown_vars", 1);
                    continue;
                };
                let Some(r) = r else { continue };
                let kind = tag
                    .map(|t| model.cons[t.get() as usize - 1].kind_name())
                    .unwrap_or("nogood");
                if let Some(i) = truth.iter().position(|t| *t != Some(true)) {
                    cx.violation(
                        format!("reason-not-true-at-analysis:{kind}:{name}"),
                        format!(
                            "during conflict analysis {name} (tag {tag:?}) explained {concl} by [{}] but {} is {:?} in the current state",
                            fmt_preds(&r),
                            rp(ids, reason[i]).map(|x| x.to_string()).unwrap_or_default(),
                            truth[i]
                        ),
                    );
                }
                let mask = ck.mask(tag);
                let alive: Option<&dyn Fn(&[i32]) -> bool> =
                    if tag.is_none() { Some(&not_blocked) } else { None };
                if let Some(w) = ck.counterexample(mask, &r, Some(&concl), alive) {
                    cx.violation(
                        format!("analysis-reason-not-sufficient:{kind}:{name}"),
                        format!(
                            "during conflict analysis {name} (tag {tag:?}) explained {concl} by [{}]; but {w:?} satisfies the constraint and the reason and not {concl}",
                            fmt_preds(&r)
                        ),
                    );
                }
            }
            _ => {}
        }
    }
}

pub struct RunLog {
    pub menu_sizes: Vec<u16>,
    pub choices: Vec<u16>,
    pub out_of_range: bool,
    pub solutions: usize,
    pub end: IterEnd,
}

/// One execution: fresh solver, the given script, complete iteration, all events checked.
pub fn execute(model: &Model, cfg: &Cfg, script: &[u16], cx: &mut CaseCtx, nsols: usize) -> RunLog {
    tap_all();
    let b = guard(|| build(model, cfg));
    let mut b = match b {
        Ok(b) => b,
        Err(e) => {
            cx.violation(format!("{}:post", panic_sig(&e)), format!("panic while posting: {e}"));
            return RunLog {
                menu_sizes: vec![],
                choices: vec![],
                out_of_range: false,
                solutions: 0,
                end: IterEnd::Panic(e),
            };
        }
    };
    let ids = b.ids.clone();
    let ck = Checker::new(model, &ids);
    // events of the posting phase
    check_events(model, &ids, verif_tap::drain(), verif_tap::drain_snapshots(), &[], cx, &ck);
    if b.first_error().is_some() {
        return RunLog {
            menu_sizes: vec![],
            choices: vec![],
            out_of_range: false,
            solutions: 0,
            end: IterEnd::Unsat,
        };
    }
    let mut brancher = ScriptedBrancher::new(ids.clone(), script.to_vec());
    let log = brancher.log.clone();
    let mut pending: Vec<(usize, Vec<Event>, Vec<Vec<Vec<i32>>>)> = vec![];
    let mut returned: Vec<Vec<i32>> = vec![];
    let it = Iterate {
        ids: &ids,
        term: &mut Indefinite,
        cap: nsols + 2,
        stop_after: None,
        on_solution: &mut |k, a| {
            pending.push((k, verif_tap::drain(), verif_tap::drain_snapshots()));
            returned.push(a.to_vec());
        },
    };
    let (got, end) = it.call(&mut b.solver, &mut brancher);
    pending.push((returned.len(), verif_tap::drain(), verif_tap::drain_snapshots()));
    for (k, events, snaps) in pending {
        let blocked = &returned[..k.min(returned.len())];
        check_events(model, &ids, events, snaps, blocked, cx, &ck);
    }
    let c = verif_tap::counters();
    cx.acc.count("conflicts", c.conflicts);
    cx.acc.count("backjumps_multi_level", c.backjumps_multi_level);
    cx.acc.count("executions_with_conflict", (c.conflicts > 0) as u64);
    let l = log.borrow();
    RunLog {
        menu_sizes: l.menu_sizes.clone(),
        choices: l.choices.clone(),
        out_of_range: l.out_of_range,
        solutions: got.len(),
        end,
    }
}

/// Deviation-bounded DFS over decision scripts of one model.
pub fn explore(model: &Model, cfg: &Cfg, b: &Bounds, cx: &mut CaseCtx, nsols: usize) {
    // (script, number of deviations, menu sizes of the parent for the divergence check)
    let mut stack: Vec<(Vec<u16>, usize, Vec<u16>)> = vec![(vec![], 0, vec![])];
    let mut executions = 0u64;
    while let Some((script, dev, parent_menus)) = stack.pop() {
        if std::env::var("PV_TRACE").is_ok() {
            eprintln!("=== SCRIPT {script:?}");
        }
        let log = execute(model, cfg, &script, cx, nsols);
        executions += 1;
        cx.acc.states += log.menu_sizes.len() as u64;
        cx.acc.transitions += log.choices.len() as u64;
        cx.acc.traces += 1;
        if log.out_of_range {
            panic!("harness: script choice out of range while replaying {script:?} on {}", model.describe());
        }
        // replaying a prefix must reproduce the parent's menus up to the deviation point
        let common = script.len().saturating_sub(1).min(parent_menus.len()).min(log.menu_sizes.len());
        if parent_menus[..common] != log.menu_sizes[..common] {
            panic!("harness: non-deterministic replay of {script:?} on {}", model.describe());
        }
        if let IterEnd::Panic(e) = &log.end {
            cx.violation(format!("{}:iterate", panic_sig(e)), format!("script {script:?}: panic: {e}"));
        }
        cx.acc.outcome(format!("{:?}/{}", std::mem::discriminant(&log.end), log.solutions.min(3)));
        if dev < b.deviations {
            let upto = log.menu_sizes.len().min(b.depth);
            for i in script.len()..upto {
                for alt in 1..log.menu_sizes[i] {
                    let mut child = log.choices[..i].to_vec();
                    child.push(alt);
                    stack.push((child, dev + 1, log.menu_sizes.clone()));
                }
            }
        }
    }
    cx.acc.count("executions", executions);
}

impl Property for C17 {
    fn id(&self) -> &'static str {
        "C17"
    }
    fn level(&self) -> &'static str {
        "model_checking"
    }
    fn case_cap_ms(&self, _tier: Tier) -> u64 {
        60_000
    }
    fn rule(&self, tier: Tier) -> String {
        let b0 = bounds(tier, 0);
        let b1 = bounds(tier, 1);
        format!(
            "For every model (M1: one instance of every constraint constructor over all domain-shape combinations; strides of M2/M3; 3-task cumulatives under all 144 option sets) all decision scripts of the scripted brancher with <= {} deviations within the first {} decision points (two-constraint and cumulative models: <= {} within {}) are executed on the real solver (complete solution iteration); states = decision points, transitions = decisions taken; every tap event (propagation with reason, explicit conflict, reason re-computed during conflict analysis) is checked by exhaustion over the declared domains against the reference constraint carrying the event's tag (untagged nogood-propagator events: against the whole model plus the blocking clauses so far). A case = one model; non-trivial = its reference solution set is neither empty nor everything.",
            b0.deviations, b0.depth, b1.deviations, b1.depth
        )
    }
    fn assumptions(&self) -> Vec<String> {
        vec![
            "the tap reads lazy nogood reasons through a non-mutating accessor; all other observations are copies of state the solver computed for itself".into(),
            "a reason given at propagation time must consist of facts that were true before the propagated entry was put on the trail".into(),
            "events over variables the harness did not create are counted and skipped".into(),
        ]
    }
    fn extra(&self, tier: Tier) -> Value {
        json!({"models": models(tier).len()})
    }
    fn run(&self, ctl: &mut Ctl) {
        let tier = ctl.tier;
        let ms = models(tier);
        let cfg = Cfg {
            uip: true,
            minimise: true,
            restart: RestartCfg::None,
            learn: LearnCfg::Default,
            seed: 42,
        };
        for (i, (group, model)) in ms.iter().enumerate() {
            let desc = || model.describe();
            ctl.case(i as u64, &desc, &mut |cx| {
                let sols = model.solutions();
                cx.nontrivial = gen::nontrivial(model, sols.len());
                explore(model, &cfg, &bounds(tier, *group), cx, sols.len());
            });
        }
        // reified and half-reified constraints with a free reification literal: complete
        // enumerations under input-order branching over permutations that place the literal first,
        // last and in between (min and max values), every event checked
        let mut idx = ms.len() as u64;
        let default_cfg = Cfg::default_cfg();
        let mut reified = crate::props::c09::reified_models(tier);
        reified.extend(crate::props::c09::self_referential_models());
        for model in reified {
            let mut sols: Option<Vec<Vec<i32>>> = None;
            for (perm, valsel) in crate::props::c09::orders(model.vars.len()) {
                let my = idx;
                idx += 1;
                if !ctl.want(my) {
                    continue;
                }
                let sols = sols.get_or_insert_with(|| model.solutions());
                let desc = || format!("{} || order {:?} val {}", model.describe(), perm, valsel);
                ctl.case(my, &desc, &mut |cx| {
                    cx.nontrivial = gen::nontrivial(&model, sols.len());
                    crate::props::c09::run_order(&model, sols, &default_cfg, &perm, valsel, cx);
                });
            }
        }
    }
}
