//! C11: interrupting a solve never produces a wrong definitive answer (fault enumeration over the
//! poll index at which the termination condition fires).
use std::cell::RefCell;

use pumpkin_solver::termination::Indefinite;
use pumpkin_solver::verif_tap;
use serde_json::json;
use serde_json::Value;

use crate::drive::*;
use crate::gen;
use crate::orch::*;
use crate::refmodel::*;
use crate::solve::*;

pub struct C11;

#[derive(Clone, Copy, Debug, PartialEq, Eq)]
enum Kind {
    Satisfy,
    Iterate,
    /// optimise x0 (or the view -x0+1 when `neg`) with LinearSatUnsat / LinearUnsatSat
    Opt { unsat_sat: bool, maximise: bool, neg: bool },
}

const KINDS: [Kind; 10] = [
    Kind::Satisfy,
    Kind::Iterate,
    Kind::Opt { unsat_sat: false, maximise: false, neg: false },
    Kind::Opt { unsat_sat: true, maximise: false, neg: false },
    Kind::Opt { unsat_sat: false, maximise: true, neg: false },
    Kind::Opt { unsat_sat: true, maximise: true, neg: false },
    Kind::Opt { unsat_sat: false, maximise: false, neg: true },
    Kind::Opt { unsat_sat: true, maximise: false, neg: true },
    Kind::Opt { unsat_sat: false, maximise: true, neg: true },
    Kind::Opt { unsat_sat: true, maximise: true, neg: true },
];

impl Kind {
    fn objective(&self) -> View {
        match self {
            Kind::Opt { neg: true, .. } => View::new(0, -1, 1),
            _ => View::id(0),
        }
    }
    /// Is objective value `a` strictly better than `b`?
    fn better(&self, a: i128, b: i128) -> bool {
        match self {
            Kind::Opt { maximise: true, .. } => a > b,
            _ => a < b,
        }
    }
    fn best(&self, sols: &[Vec<i32>]) -> Option<i128> {
        let o = self.objective();
        let vals = sols.iter().map(|s| o.eval(s));
        match self {
            Kind::Opt { maximise: true, .. } => vals.max(),
            _ => vals.min(),
        }
    }
}

fn models(tier: Tier) -> Vec<Model> {
    let mut v = vec![];
    match tier {
        Tier::Quick => {
            v.extend(gen::m1(0).into_iter().step_by(7));
            v.extend(gen::m3(0).into_iter().step_by(29));
            v.extend(gen::m4(0).into_iter().step_by(7));
            v.extend(gen::m6(0).into_iter().step_by(13));
            v.extend(gen::m5(0).into_iter().step_by(11));
        }
        Tier::Thorough => {
            v.extend(gen::m1(1).into_iter().step_by(5));
            v.extend(gen::m2(1).into_iter().step_by(499));
            v.extend(gen::m3(1).into_iter().step_by(9));
            v.extend(gen::m4(1).into_iter().step_by(3));
            v.extend(gen::m5(1).into_iter().step_by(1));
            v.extend(gen::m6(1).into_iter().step_by(1));
        }
    }
    v
}

fn max_polls(tier: Tier) -> u64 {
    if tier.quick() {
        80
    } else {
        400
    }
}

impl Property for C11 {
    fn id(&self) -> &'static str {
        "C11"
    }
    fn level(&self) -> &'static str {
        "fault_enumeration"
    }
    fn prepare(&self, _tier: Tier) -> Result<(), String> {
        crate::props::c14::build_cli_hooked()
    }
    fn rule(&self, tier: Tier) -> String {
        format!(
            "Strides of M1/M3/M4 x solve kind {{satisfy, complete iteration, optimise with LinearSatUnsat / LinearUnsatSat x minimise / maximise x objective x0 / the view -x0+1}} x 2 branchers; a counting TerminationCondition first counts the polls N of the uninterrupted run (runs with N > {} are skipped and counted), then for EVERY k in 0..=N the run is repeated with should_stop() returning true from poll k on, and once more returning true only at poll k; a case = (model, kind, brancher) and each case performs 2(N+1) interrupted executions (counter interrupted_runs). Oracle: the result is Unknown, or (optimise) Satisfiable(best) with best a solution, or the CORRECT definitive answer; afterwards the same solver is asked the same question with a condition that never fires and must give the correct answer; for iterations interrupted by a condition that fires once, the same iterator is also asked to continue after the Unknown and must still yield every solution exactly once. Exhaustive over k. Front ends: {} inputs (FlatZinc satisfy / -a / minimise / maximise, DIMACS CNF incl. structured unsatisfiable formulas, WCNF) are run through the binary built with the hooks, whose time budget is made to fire at poll k for every k from 0 until a run is no longer interrupted (cap {}): printed FlatZinc blocks are solutions, ========== only after all solutions / an optimal one, UNSATISFIABLE only without solutions, s OPTIMUM FOUND only with the true optimum, model lines satisfy the (hard) clauses and cost what the o line says, UNKNOWN only when the budget fired.",
            max_polls(tier),
            crate::props::c11_cli::len(tier),
            if tier.quick() { 40 } else { 400 }
        )
    }
    fn assumptions(&self) -> Vec<String> {
        vec![
            "the re-solve after an interrupted iteration is a plain satisfy judged against the model minus the solutions already blocked".into(),
            "a wrong re-solve after an interrupted LinearSatUnsat run carries the suffix after-sat-unsat-optimise only if it is exactly the answer for the model plus the bound x0 <= incumbent-1 that the procedure leaves in the solver (the C10 finding); any other wrong re-solve is reported plainly".into(),
        ]
    }
    fn extra(&self, tier: Tier) -> Value {
        json!({"models": models(tier).len(), "max_polls": max_polls(tier)})
    }
    fn run(&self, ctl: &mut Ctl) {
        let tier = ctl.tier;
        let ms = models(tier);
        let brs = [BrancherSpec::Indep(0, 0), BrancherSpec::Default, BrancherSpec::DynamicSplit(0, 0)];
        let mut idx = 0u64;
        for model in &ms {
            let mut sols: Option<Vec<Vec<i32>>> = None;
            for kind in KINDS {
                for br in &brs {
                    let my = idx;
                    idx += 1;
                    if !ctl.want(my) {
                        continue;
                    }
                    let sols = sols.get_or_insert_with(|| model.solutions());
                    let desc = || format!("{} || {:?} || {}", model.describe(), kind, br.describe());
                    ctl.case(my, &desc, &mut |cx| run_case(model, sols, kind, br, max_polls(tier), cx));
                }
            }
        }
        crate::props::c11_cli::run(ctl, idx);
    }
}

#[derive(Debug, Clone, PartialEq, Eq)]
enum Outcome {
    Sat(Vec<i32>),
    Unsat,
    Unknown,
    /// iteration: solutions produced and how it ended
    Iterated(Vec<Vec<i32>>, IterEnd),
    Optimal(Vec<i32>),
    Best(Vec<i32>),
    Broken(String),
    Panic(String),
}

fn solve(
    b: &mut Built,
    kind: Kind,
    br: &BrancherSpec,
    term: &mut CountingTermination,
    nsols: usize,
) -> Outcome {
    let ids = b.ids.clone();
    match kind {
        Kind::Satisfy => match with_brancher(br, &mut b.solver, &ids, 42, Satisfy { ids: &ids, term }) {
            Ok(SatOut::Sat(a)) => Outcome::Sat(a),
            Ok(SatOut::Unsat) => Outcome::Unsat,
            Ok(SatOut::Unknown) => Outcome::Unknown,
            Ok(SatOut::Broken(e)) => Outcome::Broken(e),
            Err(e) => Outcome::Panic(e),
        },
        Kind::Iterate => {
            let (got, end) = with_brancher(
                br,
                &mut b.solver,
                &ids,
                42,
                Iterate {
                    ids: &ids,
                    term,
                    cap: nsols + 2,
                    stop_after: None,
                    on_solution: &mut |_, _| {},
                },
            );
            match end {
                IterEnd::Panic(e) => Outcome::Panic(e),
                other => Outcome::Iterated(got, other),
            }
        }
        Kind::Opt { unsat_sat, maximise, .. } => {
            let cb = RefCell::new(vec![]);
            let objective = b.view(&kind.objective());
            let r = with_brancher(
                br,
                &mut b.solver,
                &ids,
                42,
                Optimise {
                    ids: &ids,
                    term,
                    objective,
                    maximise,
                    unsat_sat,
                    callback_solutions: &cb,
                },
            );
            match r {
                Ok(OptOut::Optimal(a)) => Outcome::Optimal(a),
                Ok(OptOut::Satisfiable(a)) => Outcome::Best(a),
                Ok(OptOut::Unsat) => Outcome::Unsat,
                Ok(OptOut::Unknown) => Outcome::Unknown,
                Ok(OptOut::Broken(e)) => Outcome::Broken(e),
                Err(e) => Outcome::Panic(e),
            }
        }
    }
}

/// Judge an outcome against the reference; `blocked`: solutions excluded before this solve.
fn judge(
    model: &Model,
    sols: &[Vec<i32>],
    kind: Kind,
    out: &Outcome,
    interrupted: bool,
    what: &str,
    cx: &mut CaseCtx,
) {
    let best = kind.best(sols);
    let obj = kind.objective();
    match out {
        Outcome::Sat(a) => {
            if !sols.contains(a) {
                cx.violation("non-solution", format!("{what}: returned {a:?} which is not a solution"));
            }
        }
        Outcome::Unsat => {
            if let Some(w) = sols.first() {
                cx.violation(
                    if interrupted { "unsat-because-interrupted" } else { "spurious-unsat" },
                    format!("{what}: reported Unsatisfiable but {w:?} is a solution"),
                );
            }
        }
        Outcome::Unknown => {
            if !interrupted {
                cx.violation("unknown-without-interrupt", format!("{what}: Unknown although the termination condition never fired"));
            }
        }
        Outcome::Iterated(got, end) => {
            for g in got {
                if !sols.contains(g) {
                    cx.violation("non-solution", format!("{what}: iteration produced {g:?} which is not a solution"));
                }
            }
            match end {
                IterEnd::Finished | IterEnd::Unsat => {
                    if got.len() != sols.len() {
                        cx.violation(
                            if interrupted { "finished-because-interrupted" } else { "iteration-incomplete" },
                            format!("{what}: iteration ended definitively after {} of {} solutions", got.len(), sols.len()),
                        );
                    }
                }
                IterEnd::Unknown => {
                    if !interrupted {
                        cx.violation("unknown-without-interrupt", format!("{what}: iteration returned Unknown"));
                    }
                }
                other => cx.violation("iteration-ended-oddly", format!("{what}: {other:?}")),
            }
        }
        Outcome::Optimal(a) => {
            if !sols.contains(a) || Some(obj.eval(a)) != best {
                cx.violation(
                    if interrupted { "optimal-because-interrupted" } else { "wrong-optimum" },
                    format!("{what}: Optimal {a:?} but the true optimum of {obj} is {best:?}"),
                );
            }
        }
        Outcome::Best(a) => {
            if !sols.contains(a) {
                cx.violation("best-so-far-is-not-a-solution", format!("{what}: Satisfiable({a:?}) does not satisfy the model"));
            }
            if !interrupted {
                cx.violation("inconclusive-without-interrupt", format!("{what}: Satisfiable although never interrupted"));
            }
        }
        Outcome::Broken(e) => cx.violation("partial-solution", format!("{what}: {e}")),
        Outcome::Panic(e) => cx.violation(format!("{}:{kind:?}", panic_sig(e)), format!("{what}: panic: {e}")),
    }
    let _ = model;
}

fn run_case(model: &Model, sols: &[Vec<i32>], kind: Kind, br: &BrancherSpec, max_polls: u64, cx: &mut CaseCtx) {
    verif_tap::configure(Default::default());
    cx.nontrivial = gen::nontrivial(model, sols.len());
    let cfg = Cfg::default_cfg();
    // uninterrupted run: count the polls
    let Ok(mut b) = guard(|| build(model, &cfg)) else { return };
    if b.first_error().is_some() {
        cx.acc.outcome("post-error");
        return;
    }
    let mut t = CountingTermination::never();
    let out = solve(&mut b, kind, br, &mut t, sols.len());
    judge(model, sols, kind, &out, false, "uninterrupted", cx);
    let n = t.count();
    cx.acc.count("polls_total", n);
    if n > max_polls {
        cx.acc.count("cases_skipped_too_many_polls", 1);
        return;
    }
    for k in 0..=n {
        for once in [false, true] {
            let Ok(mut b) = guard(|| build(model, &cfg)) else { return };
            let mut t = CountingTermination::from(k, once);
            let out = solve(&mut b, kind, br, &mut t, sols.len());
            cx.acc.count("interrupted_runs", 1);
            let what = format!("interrupted at poll {k}{}", if once { " (fires once)" } else { "" });
            judge(model, sols, kind, &out, true, &what, cx);
            match &out {
                Outcome::Unknown | Outcome::Best(_) => cx.acc.count("runs_that_were_actually_interrupted", 1),
                Outcome::Iterated(_, IterEnd::Unknown) => cx.acc.count("runs_that_were_actually_interrupted", 1),
                _ => {}
            }
            if matches!(out, Outcome::Panic(_)) {
                continue;
            }
            // an interrupt that fires once: keep asking the SAME iterator for the next solution
            // after the Unknown; the iteration must still yield every solution exactly once
            if kind == Kind::Iterate && once {
                if let Ok(mut b2) = guard(|| build(model, &cfg)) {
                    let ids = b2.ids.clone();
                    let mut t2 = CountingTermination::from(k, true);
                    let (got, end, unknowns) = with_brancher(
                        br,
                        &mut b2.solver,
                        &ids,
                        42,
                        IterateResuming {
                            ids: &ids,
                            term: &mut t2,
                            cap: sols.len() + 2,
                            max_unknowns: 4,
                        },
                    );
                    cx.acc.count("resumed_iterations", 1);
                    if unknowns > 0 {
                        cx.acc.count("resumed_iterations_that_were_interrupted", 1);
                    }
                    let mut sorted = got.clone();
                    sorted.sort();
                    let dup = sorted.windows(2).any(|w| w[0] == w[1]);
                    sorted.dedup();
                    let mut reference = sols.to_vec();
                    reference.sort();
                    if !matches!(end, IterEnd::Finished | IterEnd::Unsat) {
                        cx.violation("resumed-iteration-does-not-finish", format!("{what}: resumed iteration ended with {end:?} after {} solutions", got.len()));
                    } else if dup {
                        cx.violation("resumed-iteration-repeats-a-solution", format!("{what}: the resumed iteration produced {got:?}"));
                    } else if sorted != reference {
                        cx.violation("resumed-iteration-set-differs", format!("{what}: the resumed iteration produced {} of {} solutions", sorted.len(), reference.len()));
                    }
                }
            }
            // ask again, never interrupted
            let blocked: Vec<Vec<i32>> = match &out {
                // the iteration ran until next_solution reported its end (Unknown/Finished), and
                // that call first added the blocking clause of the solution returned before it
                Outcome::Iterated(got, _) => got.clone(),
                _ => vec![],
            };
            let remaining: Vec<Vec<i32>> = sols.iter().filter(|s| !blocked.contains(s)).cloned().collect();
            let re_kind = if kind == Kind::Iterate { Kind::Satisfy } else { kind };
            let mut never = CountingTermination::never();
            let again = solve(&mut b, re_kind, br, &mut never, sols.len());
            let re_what = format!("re-solve after {what}");
            let official = cx.capture(|cx| judge(model, &remaining, re_kind, &again, false, &re_what, cx));
            if official.is_empty() {
                continue;
            }
            // LinearSatUnsat leaves `x0 <= incumbent - 1` in the solver (the C10 finding). A wrong
            // re-solve that is exactly what this leftover bound explains is reported under the
            // suffix of that finding; anything else is reported as it is.
            let leftover: Option<Vec<Vec<i32>>> = if matches!(kind, Kind::Opt { unsat_sat: false, .. }) {
                let o = kind.objective();
                match &out {
                    Outcome::Best(a) | Outcome::Optimal(a) => {
                        Some(remaining.iter().filter(|s| kind.better(o.eval(s), o.eval(a))).cloned().collect())
                    }
                    _ => None,
                }
            } else {
                None
            };
            let explained = leftover
                .as_ref()
                .is_some_and(|eff| cx.capture(|cx| judge(model, eff, re_kind, &again, false, &re_what, cx)).is_empty());
            if explained {
                cx.sig_suffix = "after-sat-unsat-optimise".into();
            }
            for (sig, msg) in official {
                cx.violation(sig, msg);
            }
            cx.sig_suffix.clear();
        }
    }
}
