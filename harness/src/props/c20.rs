//! C20: runs are reproducible for a fixed seed.
//!
//! Every enumerated (input, options, seed) is executed twice: library runs twice in this process
//! (every std `HashMap` created gets fresh random keys), command-line runs in two fresh
//! processes. Compared: verdicts, solution sequences, statistics counters, proof bytes.
use pumpkin_solver::proof::Format;
use pumpkin_solver::proof::ProofLog;
use pumpkin_solver::termination::Indefinite;
use pumpkin_solver::verif_tap;
use serde_json::json;
use serde_json::Value;

use crate::drive::*;
use crate::gen;
use crate::orch::*;
use crate::props::c13;
use crate::props::c14;
use crate::props::c14::build_cli;
use crate::props::c14::run_cli;
use crate::props::c14::scratch_dir;
use crate::props::c15;
use crate::refmodel::*;
use crate::solve::*;

pub struct C20;

fn lib_models(tier: Tier) -> Vec<Model> {
    let mut v = vec![];
    let (a, b, c) = if tier.quick() { (97, 211, 53) } else { (23, 61, 11) };
    v.extend(gen::m1(0).into_iter().step_by(a));
    v.extend(gen::m3(0).into_iter().step_by(b));
    v.extend(gen::m4(0).into_iter().step_by(c));
    // clauses with several (dis)equalities on one variable, literals defined by predicates
    v.extend(gen::m5(1).into_iter().step_by(if tier.quick() { 41 } else { 7 }));
    v.extend(gen::m6(0).into_iter().step_by(if tier.quick() { 29 } else { 5 }));
    v.extend(gen::m8(0).into_iter().step_by(if tier.quick() { 7 } else { 2 }));
    v
}

/// What a library run produces (everything that must be identical between two runs).
#[derive(Debug, PartialEq, Eq)]
struct LibObservation {
    solutions: Vec<Vec<i32>>,
    end: String,
    counters: String,
    proof: Vec<u8>,
    lits: Vec<u8>,
}

fn lib_run(model: &Model, cfg: &Cfg, br: &BrancherSpec, kind: usize, path: &str) -> LibObservation {
    verif_tap::configure(Default::default());
    let proof_path = std::path::PathBuf::from(path);
    let lits_path = proof_path.with_extension("lits");
    let _ = std::fs::remove_file(&proof_path);
    let _ = std::fs::remove_file(&lits_path);
    let log = ProofLog::cp(&proof_path, Format::Text, true, kind % 2 == 0).expect("create proof file");
    let r = guard(|| {
        let mut b = build_with(
            model,
            cfg.options(log),
            BuildOpts {
                named: true,
                tagged: true,
                stop_at_error: true,
            },
        );
        if b.first_error().is_some() {
            return (vec![], "post-error".to_string());
        }
        let ids = b.ids.clone();
        match kind % 3 {
            0 => {
                let (got, end) = with_brancher(
                    br,
                    &mut b.solver,
                    &ids,
                    cfg.seed,
                    Iterate {
                        ids: &ids,
                        term: &mut Indefinite,
                        cap: 4096,
                        stop_after: None,
                        on_solution: &mut |_, _| {},
                    },
                );
                (got, format!("{end:?}"))
            }
            1 => {
                let r = with_brancher(br, &mut b.solver, &ids, cfg.seed, Satisfy { ids: &ids, term: &mut Indefinite });
                match r {
                    Ok(SatOut::Sat(a)) => (vec![a], "sat".into()),
                    Ok(o) => (vec![], format!("{o:?}")),
                    Err(e) => (vec![], format!("panic {}", panic_sig(&e))),
                }
            }
            _ => {
                let cb = std::cell::RefCell::new(vec![]);
                let objective = b.view(&View::id(0));
                let r = with_brancher(
                    br,
                    &mut b.solver,
                    &ids,
                    cfg.seed,
                    Optimise {
                        ids: &ids,
                        term: &mut Indefinite,
                        objective,
                        maximise: kind % 2 == 0,
                        unsat_sat: kind % 4 == 1,
                        callback_solutions: &cb,
                    },
                );
                let seq: Vec<Vec<i32>> = cb.borrow().iter().filter_map(|x| x.clone().ok()).collect();
                (seq, format!("{r:?}"))
            }
        }
    });
    let (solutions, end) = match r {
        Ok(x) => x,
        Err(e) => (vec![], format!("panic {}", panic_sig(&e))),
    };
    let c = verif_tap::counters();
    let counters = format!(
        "conflicts={} restarts={} deleted={} learned={} reused={}",
        c.conflicts, c.restarts, c.nogoods_deleted, c.learned, c.nogood_ids_reused
    );
    let proof = std::fs::read(&proof_path).unwrap_or_default();
    let lits = std::fs::read(&lits_path).unwrap_or_default();
    let _ = std::fs::remove_file(&proof_path);
    let _ = std::fs::remove_file(&lits_path);
    LibObservation {
        solutions,
        end,
        counters,
        proof,
        lits,
    }
}

/// Drop the statistic lines whose value is wall-clock time.
fn normalise(stdout: &str) -> String {
    stdout
        .lines()
        .filter(|l| !l.to_ascii_lowercase().contains("timespentinsolver") && !l.to_ascii_lowercase().contains("time_spent_in_solver"))
        .collect::<Vec<_>>()
        .join("\n")
}

impl Property for C20 {
    fn id(&self) -> &'static str {
        "C20"
    }
    fn level(&self) -> &'static str {
        "exploration"
    }
    fn case_cap_ms(&self, _tier: Tier) -> u64 {
        120_000
    }
    fn prepare(&self, _tier: Tier) -> Result<(), String> {
        build_cli()
    }
    fn confirm_by_replay(&self) -> bool {
        // a reproducibility violation is non-deterministic by nature
        false
    }
    fn rule(&self, _tier: Tier) -> String {
        "Library: strides of M1/M3/M4/M5/M6 x configuration slice (seeds 0, 1, 42; restarts and deletion forced) x {default brancher, random selectors, input order} x {complete iteration, satisfy, optimise} with a full / hinted DRCP proof, each executed twice in this process; compared: the sequence of solutions, the end result, the tap counters (conflicts, restarts, deletions, learned, id reuse), the bytes of the .drcp and of the .lits file. Command line: CNF, WCNF and FlatZinc inputs (strides of the C14/C15/C13 input sets, every C13 input with sets, and three larger models with sparse sets of 4-6 values under {default, -a, -f -a}) x seeds {1, 42} with -s (and --proof-path / --proof-type full for CNF and FlatZinc), each executed in two fresh processes; compared: stdout byte for byte (after dropping the statistic whose value is wall-clock time) and the proof files. A case = one (input, options, seed); non-trivial = the run made at least one decision or produced at least one solution. Exhaustive over the enumerated inputs/options; the hidden hash keys themselves are not enumerable (two independent draws per case).".into()
    }
    fn assumptions(&self) -> Vec<String> {
        vec![
            "the statistic timeSpentInSolver is wall-clock time and excluded from the comparison".into(),
            "two executions per case; the std RandomState keys differ between any two HashMaps, so iteration-order dependence shows with high probability but is not enumerated".into(),
        ]
    }
    fn extra(&self, _tier: Tier) -> Value {
        json!({"exhaustive_over_hash_keys": false})
    }
    fn run(&self, ctl: &mut Ctl) {
        let tier = ctl.tier;
        let dir = scratch_dir();
        let mut idx = 0u64;
        // ---- library ----
        let cfgs = Cfg::slice();
        let brs = [BrancherSpec::Default, BrancherSpec::Indep(9, 13), BrancherSpec::Indep(0, 0), BrancherSpec::Indep(10, 7)];
        for model in lib_models(tier) {
            for (ci, cfg) in cfgs.iter().enumerate() {
                if !cfg.uip {
                    continue; // proofs are only meaningful with learning
                }
                for (bi, br) in brs.iter().enumerate() {
                    let kind = ci + bi;
                    let my = idx;
                    idx += 1;
                    let desc = || format!("lib: {} || {} || {} || kind {}", model.describe(), cfg.describe(), br.describe(), kind % 3);
                    ctl.case(my, &desc, &mut |cx| {
                        let path = format!("{dir}/c20_{my}.drcp");
                        let a = lib_run(&model, cfg, br, kind, &path);
                        let b = lib_run(&model, cfg, br, kind, &path);
                        cx.nontrivial = !a.solutions.is_empty() || !a.proof.is_empty();
                        if a.solutions != b.solutions || a.end != b.end {
                            cx.violation("lib-solution-sequence-differs", format!("run 1: {:?} {}; run 2: {:?} {}", a.solutions, a.end, b.solutions, b.end));
                        }
                        if a.counters != b.counters {
                            cx.violation("lib-statistics-differ", format!("run 1: {}; run 2: {}", a.counters, b.counters));
                        }
                        if a.proof != b.proof {
                            cx.violation("lib-proof-differs", format!("the .drcp files differ ({} vs {} bytes)", a.proof.len(), b.proof.len()));
                        }
                        if a.lits != b.lits {
                            cx.violation(
                                "lib-lits-differs",
                                format!(
                                    "the .lits files differ: {:?} vs {:?}",
                                    String::from_utf8_lossy(&a.lits).chars().take(120).collect::<String>(),
                                    String::from_utf8_lossy(&b.lits).chars().take(120).collect::<String>()
                                ),
                            );
                        }
                    });
                }
            }
        }
        // ---- command line ----
        let mut inputs: Vec<(String, String, Vec<String>)> = vec![]; // (extension, text, extra flags)
        let s = if tier.quick() { 9 } else { 2 };
        for f in c14::formulas(3, 3, 2).into_iter().step_by(4001 * s) {
            inputs.push(("cnf".into(), f.canonical(), vec![]));
        }
        for f in c14::formulas(2, 3, 2).into_iter().step_by(37 * s) {
            inputs.push(("cnf".into(), f.canonical(), vec![]));
        }
        for w in c15::instances(Tier::Quick).into_iter().step_by(29 * s) {
            inputs.push(("wcnf".into(), w.text(), vec![]));
        }
        for (i, c) in c13::cases(Tier::Quick).into_iter().enumerate() {
            let text = c.f.text();
            // every case with sets (hashed containers in the compiler) and a stride of the others
            let sets = text.contains("set_in") || text.contains("{");
            if i % (5 * s) == 0 || (sets && i % (if tier.quick() { 3 } else { 1 }) == 0) {
                inputs.push(("fzn".into(), text, c.flags.iter().map(|x| x.to_string()).collect()));
            }
        }
        // larger sparse sets and several reified set constraints: the order in which auxiliary
        // literals are created shows in the search
        let big = [
            "var 0..10: x :: output_var;\nvar 0..10: y :: output_var;\nvar bool: b :: output_var;\nvar bool: c :: output_var;\nconstraint set_in_reif(x, {1,3,5,7,9}, b);\nconstraint set_in_reif(y, {0,2,4,6,8,10}, c);\nconstraint int_lin_le([1,1],[x,y],12);\nconstraint bool_clause([b,c],[]);\nsolve satisfy;\n",
            "var 0..10: x :: output_var;\nvar {1,2,4,7,8}: y :: output_var;\nvar bool: b :: output_var;\nconstraint set_in_reif(x, {2,3,5,8}, b);\nconstraint set_in(x, {0,2,3,4,5,8,9});\nconstraint int_ne(x, y);\nconstraint int_lin_le([1,-1],[x,y],3);\nsolve maximize x;\n",
            "var -4..6: x :: output_var;\nvar -4..6: y :: output_var;\nvar -4..6: z :: output_var;\nvar bool: b :: output_var;\nvar bool: c :: output_var;\nconstraint set_in_reif(x, {-3,-1,2,6}, b);\nconstraint set_in_reif(z, {-4,0,1,5}, c);\nconstraint pumpkin_all_different([x,y,z]);\nconstraint int_lin_eq([1,1,1],[x,y,z],3);\nconstraint bool_not(b,c);\nsolve satisfy;\n",
        ];
        for text in big {
            for flags in [vec![], vec!["-a"], vec!["-f", "-a"]] {
                inputs.push(("fzn".into(), text.to_string(), flags.iter().map(|x| x.to_string()).collect()));
            }
        }
        // search annotations that mention a variable more than once: literally, through an alias,
        // through constants, and nested in seq_search (containers that remove the duplicates must
        // not decide the order)
        let decls: String = (1..=8).map(|i| format!("var 0..2: x{i} :: output_var;\n")).collect::<String>()
            + "var 0..2: y :: output_var = x3;\nvar bool: p :: output_var;\nvar bool: q :: output_var;\nvar bool: r :: output_var;\nvar bool: s :: output_var = q;\n"
            + "constraint int_lin_le([-1,-1,-1,-1,-1,-1,-1,-1],[x1,x2,x3,x4,x5,x6,x7,x8],-1);\nconstraint int_lin_le([1,1,1,1,1,1,1,1],[x1,x2,x3,x4,x5,x6,x7,x8],2);\nconstraint bool_clause([p,q,r],[]);\n";
        let anns = [
            "int_search([x1,x2,x3,x4,x5,x6,x7,x8,x1], input_order, indomain_min, complete)",
            "int_search([x8,x7,x6,x5,x4,x3,x2,x1,y,x8,x7], input_order, indomain_max, complete)",
            "int_search([x1,x2,x3,x4,x5,x6,x7,x8,y], first_fail, indomain_min, complete)",
            "int_search([x2,x2,x1,x4,x3,x6,x5,x8,x7], smallest, indomain_split, complete)",
            "seq_search([bool_search([p,q,r,s,p], input_order, indomain_max, complete), int_search([x5,x6,x7,x8,x1,x2,x3,x4,x5,1], input_order, indomain_min, complete)])",
            "bool_search([r,true,q,p,false,r,s], input_order, indomain_min, complete)",
        ];
        for ann in anns {
            for (goal, flags) in [("satisfy", vec![]), ("satisfy", vec!["-a"]), ("maximize x4", vec![])] {
                let text = format!("{decls}solve :: {ann} {goal};\n");
                inputs.push(("fzn".into(), text, flags.iter().map(|x| x.to_string()).collect()));
            }
        }
        for (ext, text, flags) in &inputs {
            for seed in ["1", "42"] {
                let my = idx;
                idx += 1;
                let desc = || format!("cli: {ext} seed {seed} flags {flags:?} :: {}", text.replace('\n', " / "));
                ctl.case(my, &desc, &mut |cx| {
                    // (a run cut off by the time limit says nothing about reproducibility: retried
                    // once with a long limit, then counted and left out)
                    let mut outs = vec![];
                    for limit in [5u64, 12] {
                        outs.clear();
                        for run in 0..2 {
                            let path = format!("{dir}/c20_{my}_{run}.{ext}");
                            let proof = format!("{dir}/c20_{my}_{run}.proof");
                            std::fs::write(&path, text).expect("write input");
                            let mut args: Vec<String> = vec![path.clone(), "-s".into(), "-r".into(), seed.into()];
                            args.extend(flags.iter().cloned());
                            if ext != "wcnf" {
                                args.extend(["--proof-path".to_string(), proof.clone(), "--proof-type".to_string(), "full".to_string()]);
                            }
                            let a: Vec<&str> = args.iter().map(|x| x.as_str()).collect();
                            let o = run_cli(&a, limit).expect("run cli");
                            let p = std::fs::read(&proof).unwrap_or_default();
                            let l = std::fs::read(format!("{dir}/c20_{my}_{run}.lits")).unwrap_or_default();
                            let _ = std::fs::remove_file(&path);
                            let _ = std::fs::remove_file(&proof);
                            let _ = std::fs::remove_file(format!("{dir}/c20_{my}_{run}.lits"));
                            outs.push((o.status, normalise(&o.stdout), p, l));
                        }
                        if outs.iter().all(|o| o.0 != Some(124)) {
                            break;
                        }
                    }
                    if outs.iter().any(|o| o.0 == Some(124)) {
                        cx.acc.count("cli_runs_cut_off_by_the_time_limit", 1);
                        return;
                    }
                    cx.nontrivial = outs[0].1.lines().count() > 2;
                    if outs[0].0 != outs[1].0 || outs[0].1 != outs[1].1 {
                        let (a, b) = (&outs[0].1, &outs[1].1);
                        let diff = a.lines().zip(b.lines()).find(|(x, y)| x != y);
                        cx.violation(format!("cli-stdout-differs:{ext}"), format!("exit {:?} vs {:?}; first differing line: {:?}", outs[0].0, outs[1].0, diff));
                    }
                    if outs[0].2 != outs[1].2 {
                        cx.violation(format!("cli-proof-differs:{ext}"), "the proof files of the two runs differ");
                    }
                    if outs[0].3 != outs[1].3 {
                        cx.violation(format!("cli-lits-differs:{ext}"), "the .lits files of the two runs differ");
                    }
                });
            }
        }
    }
}
