//! C06: emitted DRCP proofs are valid certificates.
//!
//! Every model that ends in UNSAT / optimality is solved through the library with proof logging
//! (scaffold, full, hinted); the files are checked by an independent checker: own parsers for
//! .drcp and .lits, exhaustive semantic check of every inference against the single reference
//! constraint it is tagged with, reverse constraint propagation for every nogood step over a
//! small domain-set engine, and the conclusion.
use std::cell::RefCell;
use std::collections::BTreeMap;

use pumpkin_solver::proof::Format;
use pumpkin_solver::proof::ProofLog;
use pumpkin_solver::termination::Indefinite;
use pumpkin_solver::verif_tap;
use serde_json::json;
use serde_json::Value;

use crate::drive::*;
use crate::gen;
use crate::orch::*;
use crate::props::c14::scratch_dir;
use crate::refmodel::*;
use crate::solve::*;

pub struct C06;

#[derive(Clone, Copy, Debug, PartialEq, Eq)]
pub enum Kind {
    Satisfy,
    Optimise { maximise: bool, unsat_sat: bool },
}

#[derive(Clone, Debug)]
enum Step {
    Inference {
        id: u64,
        premises: Vec<i64>,
        conclusion: Option<i64>,
        tag: Option<u32>,
    },
    Nogood {
        id: u64,
        literals: Vec<i64>,
        hints: Option<Vec<u64>>,
    },
    Delete(u64),
    Unsat,
    Optimal(i64),
}

fn parse_drcp(text: &str) -> Result<Vec<Step>, String> {
    let mut out = vec![];
    for (ln, line) in text.lines().enumerate() {
        let toks: Vec<&str> = line.split_whitespace().collect();
        if toks.is_empty() {
            continue;
        }
        let err = |m: &str| format!("line {}: {m}: {line:?}", ln + 1);
        match toks[0] {
            "i" => {
                let id: u64 = toks.get(1).and_then(|t| t.parse().ok()).ok_or_else(|| err("bad id"))?;
                let mut premises = vec![];
                let mut conclusion = None;
                let mut tag = None;
                let mut k = 2;
                let mut after_zero = false;
                while k < toks.len() {
                    let t = toks[k];
                    if let Some(c) = t.strip_prefix("c:") {
                        tag = Some(c.parse().map_err(|_| err("bad tag"))?);
                    } else if t.starts_with("l:") {
                    } else if t == "0" {
                        after_zero = true;
                    } else {
                        let v: i64 = t.parse().map_err(|_| err("bad literal"))?;
                        if after_zero {
                            conclusion = Some(v);
                        } else {
                            premises.push(v);
                        }
                    }
                    k += 1;
                }
                out.push(Step::Inference {
                    id,
                    premises,
                    conclusion,
                    tag,
                });
            }
            "n" => {
                let id: u64 = toks.get(1).and_then(|t| t.parse().ok()).ok_or_else(|| err("bad id"))?;
                let mut literals = vec![];
                let mut hints: Option<Vec<u64>> = None;
                for t in &toks[2..] {
                    if let Some(h) = hints.as_mut() {
                        h.push(t.parse().map_err(|_| err("bad hint"))?);
                    } else if *t == "0" {
                        hints = Some(vec![]);
                    } else {
                        literals.push(t.parse().map_err(|_| err("bad literal"))?);
                    }
                }
                out.push(Step::Nogood { id, literals, hints });
            }
            "d" => out.push(Step::Delete(toks.get(1).and_then(|t| t.parse().ok()).ok_or_else(|| err("bad id"))?)),
            "c" => match toks.get(1) {
                Some(&"UNSAT") => out.push(Step::Unsat),
                Some(t) => out.push(Step::Optimal(t.parse().map_err(|_| err("bad conclusion"))?)),
                None => return Err(err("empty conclusion")),
            },
            _ => return Err(err("unknown step kind")),
        }
    }
    Ok(out)
}

/// code -> predicate over a model variable (names are x<i>)
fn parse_lits(text: &str) -> Result<BTreeMap<i64, Pred>, String> {
    let mut m = BTreeMap::new();
    for line in text.lines() {
        let line = line.trim();
        if line.is_empty() {
            continue;
        }
        let (code, rest) = line.split_once(' ').ok_or_else(|| format!("bad .lits line {line:?}"))?;
        let code: i64 = code.parse().map_err(|_| format!("bad code in {line:?}"))?;
        let inner = rest
            .trim()
            .strip_prefix('[')
            .and_then(|r| r.split(']').next())
            .ok_or_else(|| format!("bad atomic in {line:?}"))?;
        let parts: Vec<&str> = inner.split_whitespace().collect();
        if parts.len() != 3 {
            return Err(format!("bad atomic in {line:?}"));
        }
        let val: i32 = parts[2].parse().map_err(|_| format!("bad value in {line:?}"))?;
        let kind = match parts[1] {
            "<=" => PredKind::Le,
            ">=" => PredKind::Ge,
            "==" => PredKind::Eq,
            "!=" => PredKind::Ne,
            _ => return Err(format!("bad comparison in {line:?}")),
        };
        if parts[0] == "Dummy" {
            // The solver's always-true literal is the 0-1 variable `Dummy` fixed to 1; trivially
            // true / false predicates (e.g. an equality on a view with a value outside its image)
            // are written over it. They are read as the constants they denote.
            let truth = Pred::new(0, kind, val).holds_val(1);
            let constant = if truth { Pred::new(0, PredKind::Ge, -1_000_000) } else { Pred::new(0, PredKind::Le, -1_000_001) };
            let _ = m.insert(code, constant);
            continue;
        }
        let var: usize = parts[0]
            .strip_prefix('x')
            .and_then(|i| i.parse().ok())
            .ok_or_else(|| format!("unknown variable name in {line:?}"))?;
        let _ = m.insert(code, Pred::new(var, kind, val));
    }
    Ok(m)
}

struct Checker<'a> {
    model: &'a Model,
    lits: BTreeMap<i64, Pred>,
    /// all assignments with the mask of constraints they satisfy
    table: Vec<(Vec<i32>, u64)>,
}

#[derive(Clone)]
struct Doms(Vec<Vec<i32>>);

impl Doms {
    fn apply(&mut self, p: &Pred) -> bool {
        let d = &mut self.0[p.var];
        let n = d.len();
        d.retain(|v| p.holds_val(*v));
        d.len() != n
    }
    fn entailed(&self, p: &Pred) -> bool {
        self.0[p.var].iter().all(|v| p.holds_val(*v))
    }
    fn falsified(&self, p: &Pred) -> bool {
        !self.0[p.var].iter().any(|v| p.holds_val(*v))
    }
    fn empty(&self) -> bool {
        self.0.iter().any(|d| d.is_empty())
    }
}

enum Known {
    Inference { premises: Vec<Pred>, conclusion: Option<Pred> },
    Clause(Vec<Pred>),
}

impl Checker<'_> {
    fn lit(&self, code: i64) -> Result<Pred, String> {
        match self.lits.get(&code.abs()) {
            Some(p) => Ok(if code > 0 { *p } else { p.negate() }),
            None => Err(format!("literal code {code} is not defined in the .lits file")),
        }
    }
    fn lits_of(&self, codes: &[i64]) -> Result<Vec<Pred>, String> {
        codes.iter().map(|c| self.lit(*c)).collect()
    }
    /// is there an assignment satisfying the constraints in `mask`, all of `premises`, and not
    /// `conclusion`?
    fn counterexample(&self, mask: u64, premises: &[Pred], conclusion: Option<&Pred>) -> Option<Vec<i32>> {
        self.table
            .iter()
            .find(|(a, m)| m & mask == mask && premises.iter().all(|p| p.holds(a)) && conclusion.map(|c| !c.holds(a)).unwrap_or(true))
            .map(|(a, _)| a.clone())
    }
    /// Reverse constraint propagation: assume the negation of the clause and propagate with the
    /// given known facts to a conflict.
    fn rcp(&self, clause: &[Pred], known: &[&Known]) -> bool {
        let mut d = Doms(self.model.vars.iter().map(|v| v.values.clone()).collect());
        for l in clause {
            let _ = d.apply(&l.negate());
        }
        loop {
            if d.empty() {
                return true;
            }
            let mut changed = false;
            for k in known {
                match k {
                    Known::Inference { premises, conclusion } => {
                        if premises.iter().all(|p| d.entailed(p)) {
                            match conclusion {
                                None => return true,
                                Some(c) => changed |= d.apply(c),
                            }
                        }
                    }
                    Known::Clause(ls) => {
                        let open: Vec<&Pred> = ls.iter().filter(|l| !d.falsified(l)).collect();
                        if open.is_empty() {
                            return true;
                        }
                        if open.len() == 1 {
                            changed |= d.apply(open[0]);
                        }
                    }
                }
                if d.empty() {
                    return true;
                }
            }
            if !changed {
                return false;
            }
        }
    }
}

fn models(tier: Tier) -> Vec<Model> {
    let mut v = vec![];
    match tier {
        Tier::Quick => {
            v.extend(gen::m1(0).into_iter().step_by(13));
            v.extend(gen::m3(0).into_iter().step_by(41));
            v.extend(gen::m4(0).into_iter().step_by(17));
            v.extend(gen::m5(0).into_iter().step_by(7));
            v.extend(gen::m6(0).into_iter().step_by(3));
            v.extend(gen::m7(0).into_iter().step_by(11));
            v.extend(gen::m8(0).into_iter().step_by(5));
        }
        Tier::Thorough => {
            v.extend(gen::m1(1).into_iter().step_by(3));
            v.extend(gen::m2(1).into_iter().step_by(199));
            v.extend(gen::m3(1).into_iter().step_by(3));
            v.extend(gen::m4(1).into_iter().step_by(1));
            v.extend(gen::m5(1).into_iter().step_by(1));
            v.extend(gen::m6(1));
            v.extend(gen::m7(1).into_iter().step_by(1));
            v.extend(gen::m8(1).into_iter().step_by(1));
        }
    }
    v
}

fn kinds() -> Vec<Kind> {
    vec![
        Kind::Satisfy,
        Kind::Optimise { maximise: false, unsat_sat: false },
        Kind::Optimise { maximise: true, unsat_sat: false },
        Kind::Optimise { maximise: false, unsat_sat: true },
        Kind::Optimise { maximise: true, unsat_sat: true },
    ]
}

impl Property for C06 {
    fn id(&self) -> &'static str {
        "C06"
    }
    fn level(&self) -> &'static str {
        "exploration"
    }
    fn rule(&self, _tier: Tier) -> String {
        "Strides of M1/M3/M4 (no literal variables) x solve kind {satisfy, minimise/maximise x0 with LinearSatUnsat and LinearUnsatSat} x proof kind {scaffold, full, full+hints} x {minimisation on, off} x 2 branchers; models are posted with named variables and one tag per constraint. Each produced (.drcp, .lits) pair is checked by an independent checker: every literal code is defined, ids increase, hints point backwards; every tagged inference follows from the single reference constraint with that tag by exhaustion over the declared domains; every untagged inference follows from one posted constraint (together with the root facts the proof has established as earlier unit nogoods), one earlier nogood or the domains alone (objective-improvement cuts of LinearSatUnsat are admitted iff they cut exactly at the value of a true solution); every nogood step is derived by reverse constraint propagation over {inferences since the previous nogood, all earlier nogoods, declared domains} (full proofs; the hinted steps only when hints are present) and is entailed by the reference solution set; UNSAT is preceded by the empty nogood and only concluded for models without solutions; an optimality conclusion is a true bound at the brute-force optimum. A case = one (model, kind, proof kind, configuration); non-trivial = a conclusion was written.".into()
    }
    fn assumptions(&self) -> Vec<String> {
        vec![
            "for scaffold proofs (no inferences) nogood steps are only checked semantically (entailed by the model), as the format intends them to be completed by a proof processor; for scaffold proofs of LinearSatUnsat runs even that is vacuous because the objective cuts are not in the file (only structure, literal definitions and the conclusion are checked)".into(),
            "the optimality conclusion is read as the dual bound (README of drcp-format): a true statement about all solutions".into(),
            "clauses (Solver::add_clause) cannot carry a tag; their inferences are untagged".into(),
            "atomics over the solver's constant variable `Dummy` (fixed to 1) are read as the constants true / false".into(),
        ]
    }
    fn extra(&self, tier: Tier) -> Value {
        json!({"models": models(tier).len()})
    }
    fn run(&self, ctl: &mut Ctl) {
        let tier = ctl.tier;
        let ms = models(tier);
        let dir = scratch_dir();
        let brs = [BrancherSpec::Indep(0, 0), BrancherSpec::Default];
        let mut idx = 0u64;
        for model in &ms {
            let mut sols: Option<Vec<Vec<i32>>> = None;
            for kind in kinds() {
                for proof_kind in 0..3usize {
                    for minimise in [true, false] {
                        for br in &brs {
                            let my = idx;
                            idx += 1;
                            if !ctl.want(my) {
                                continue;
                            }
                            let sols = sols.get_or_insert_with(|| model.solutions());
                            // satisfy on satisfiable models writes no conclusion: skip
                            if kind == Kind::Satisfy && !sols.is_empty() {
                                continue;
                            }
                            let cfg = Cfg {
                                uip: true,
                                minimise,
                                restart: if my % 3 == 0 { RestartCfg::Luby1 } else { RestartCfg::None },
                                learn: if my % 5 == 0 { LearnCfg::L1Act } else { LearnCfg::Default },
                                seed: 42,
                            };
                            let desc = || {
                                format!(
                                    "{} || {:?} || proof {} || {} || {}",
                                    model.describe(),
                                    kind,
                                    ["scaffold", "full", "hints"][proof_kind],
                                    cfg.describe(),
                                    br.describe()
                                )
                            };
                            ctl.case(my, &desc, &mut |cx| {
                                // The known finding "hint list omits a unit nogood" is identified by
                                // its signature AND by the inputs on which it shows (hashes of the case
                                // descriptions in /verif/known_c06_inputs.json): on any other input
                                // the same kind of failure is reported under a signature that no
                                // known finding matches.
                                let found = cx.capture(|cx| run_one(model, sols, kind, proof_kind, &cfg, br, &dir, my, cx));
                                for (sig, msg) in found {
                                    if sig == "hint-list-omits-unit-nogood" {
                                        let h = fnv64(&desc());
                                        record_input(&sig, h);
                                        if !listed_inputs().contains(&h) {
                                            cx.violation(format!("unlisted-input:{sig}"), msg);
                                            continue;
                                        }
                                    }
                                    cx.violation(sig, msg);
                                }
                            });
                        }
                    }
                }
            }
        }
    }
}

#[allow(clippy::too_many_arguments)]
fn run_one(
    model: &Model,
    sols: &[Vec<i32>],
    kind: Kind,
    proof_kind: usize,
    cfg: &Cfg,
    br: &BrancherSpec,
    dir: &str,
    my: u64,
    cx: &mut CaseCtx,
) {
    verif_tap::configure(Default::default());
    let path = std::path::PathBuf::from(format!("{dir}/c06_{my}.drcp"));
    let lits_path = path.with_extension("lits");
    let _ = std::fs::remove_file(&path);
    let _ = std::fs::remove_file(&lits_path);
    let log = ProofLog::cp(&path, Format::Text, proof_kind >= 1, proof_kind == 2).expect("create proof");
    let kind_name = match kind {
        Kind::Satisfy => "satisfy".to_string(),
        Kind::Optimise { maximise, unsat_sat } => format!("{}:{}", if maximise { "max" } else { "min" }, if unsat_sat { "unsat-sat" } else { "sat-unsat" }),
    };
    cx.sig_suffix = format!("{}:{}", ["scaffold", "full", "hints"][proof_kind], kind_name);
    let run = guard(|| {
        let mut b = build_with(
            model,
            cfg.options(log),
            BuildOpts {
                named: true,
                tagged: true,
                stop_at_error: true,
            },
        );
        if b.first_error().is_some() {
            return "post-error".to_string();
        }
        let ids = b.ids.clone();
        match kind {
            Kind::Satisfy => {
                let r = with_brancher(br, &mut b.solver, &ids, cfg.seed, Satisfy { ids: &ids, term: &mut Indefinite });
                format!("{r:?}")
            }
            Kind::Optimise { maximise, unsat_sat } => {
                let cb = RefCell::new(vec![]);
                let objective = b.view(&View::id(0));
                let r = with_brancher(
                    br,
                    &mut b.solver,
                    &ids,
                    cfg.seed,
                    Optimise {
                        ids: &ids,
                        term: &mut Indefinite,
                        objective,
                        maximise,
                        unsat_sat,
                        callback_solutions: &cb,
                    },
                );
                format!("{r:?}")
            }
        }
    });
    let proof = std::fs::read_to_string(&path).unwrap_or_default();
    let lits = std::fs::read_to_string(&lits_path).unwrap_or_default();
    let _ = std::fs::remove_file(&path);
    let _ = std::fs::remove_file(&lits_path);
    let result = match run {
        Ok(r) => r,
        Err(e) => {
            cx.violation(format!("{}:solve-with-proof", panic_sig(&e)), format!("panic while solving with proof logging: {e}"));
            return;
        }
    };
    let trace = std::env::var("PV_TRACE").is_ok();
    if trace {
        eprintln!("RESULT {result}\nPROOF\n{proof}LITS\n{lits}");
    }
    let steps = match parse_drcp(&proof) {
        Ok(s) => s,
        Err(e) => {
            cx.violation("proof-unparsable", e);
            return;
        }
    };
    let lit_map = match parse_lits(&lits) {
        Ok(m) => m,
        Err(e) => {
            cx.violation("lits-unparsable", e);
            return;
        }
    };
    let has_conclusion = steps.iter().any(|s| matches!(s, Step::Unsat | Step::Optimal(_)));
    cx.nontrivial = has_conclusion;
    if !has_conclusion {
        cx.acc.outcome("no-conclusion");
        // a definitive result must come with a conclusion
        if result.contains("Optimal") || result.contains("Unsat") {
            cx.violation("missing-conclusion", format!("result {result} but the proof has no conclusion step"));
        }
        return;
    }
    let mut table = vec![];
    model.for_each_assignment(|a| {
        let mut mask = 0u64;
        for (k, c) in model.cons.iter().enumerate() {
            if c.holds(a) {
                mask |= 1 << k;
            }
        }
        table.push((a.to_vec(), mask));
    });
    let ck = Checker {
        model,
        lits: lit_map,
        table,
    };
    let full_mask = (1u64 << model.cons.len()) - 1;
    // reference solutions still admitted (objective cuts remove some)
    let mut alive: Vec<Vec<i32>> = sols.to_vec();
    if proof_kind == 0 && matches!(kind, Kind::Optimise { unsat_sat: false, .. }) {
        // Scaffold proofs do not contain the objective cuts of LinearSatUnsat (root propagations
        // are only logged together with inferences), so it is unknown which cut was active when a
        // nogood was learned. All that can be demanded soundly is entailment by the model together
        // with the strongest cut (better than the optimum), which no assignment satisfies: the
        // semantic check of nogoods is vacuous for these proofs, only structure and conclusion
        // are checked.
        alive.clear();
    }
    let mut known: Vec<(u64, Known)> = vec![]; // (step id, fact); inferences are dropped after the next nogood
    let mut pending_inference_ids: Vec<u64> = vec![];
    let mut last_id = 0u64;
    let mut seen_empty_nogood = false;
    let mut unjustified: Vec<(u64, String)> = vec![];
    let objective = View::id(0);
    for step in &steps {
        match step {
            Step::Inference {
                id,
                premises,
                conclusion,
                tag,
            } => {
                if *id <= last_id {
                    cx.violation("ids-not-increasing", format!("step id {id} after {last_id}"));
                }
                last_id = *id;
                let (prem, concl) = match (ck.lits_of(premises), conclusion.map(|c| ck.lit(c)).transpose()) {
                    (Ok(p), Ok(c)) => (p, c),
                    (Err(e), _) | (_, Err(e)) => {
                        cx.violation("undefined-literal", e);
                        return;
                    }
                };
                cx.acc.count("inferences_checked", 1);
                let txt = || {
                    format!(
                        "i {id}: [{}] => {}",
                        prem.iter().map(|p| p.to_string()).collect::<Vec<_>>().join(" & "),
                        concl.map(|c| c.to_string()).unwrap_or("false".into())
                    )
                };
                match tag {
                    Some(t) => {
                        let k = *t as usize - 1;
                        if k >= model.cons.len() {
                            cx.violation("inference-with-unknown-tag", txt());
                        } else if let Some(w) = ck.counterexample(1 << k, &prem, concl.as_ref()) {
                            cx.violation(
                                format!("tagged-inference-not-entailed:{}", model.cons[k].kind_name()),
                                format!("{} does not follow from constraint #{k} `{}`: {w:?} is a counterexample", txt(), model.cons[k]),
                            );
                        }
                    }
                    None => {
                        // some single constraint, some earlier nogood, or the domains alone
                        // (clauses are preprocessed when posted: predicates that are true at the root
                        // are dropped, so their propagations rest on the clause together with root
                        // facts, which the proof contains as earlier unit nogoods)
                        let mut prem_with_units = prem.clone();
                        for (_, f) in &known {
                            if let Known::Clause(ls) = f {
                                if ls.len() == 1 {
                                    prem_with_units.push(ls[0]);
                                }
                            }
                        }
                        let by_constraint =
                            (0..model.cons.len()).any(|k| ck.counterexample(1 << k, &prem_with_units, concl.as_ref()).is_none());
                        let by_domains = ck.counterexample(0, &prem, concl.as_ref()).is_none();
                        let by_nogood = known.iter().any(|(_, f)| match f {
                            Known::Clause(ls) => !ck.table.iter().any(|(a, _)| {
                                ls.iter().any(|l| l.holds(a)) && prem.iter().all(|p| p.holds(a)) && concl.map(|c| !c.holds(a)).unwrap_or(true)
                            }),
                            _ => false,
                        });
                        if !(by_constraint || by_domains || by_nogood) {
                            // decided at the nogood step that follows: it may be an objective
                            // improvement cut of LinearSatUnsat
                            unjustified.push((*id, txt()));
                        }
                    }
                }
                known.push((*id, Known::Inference { premises: prem, conclusion: concl }));
                pending_inference_ids.push(*id);
            }
            Step::Nogood { id, literals, hints } => {
                if *id <= last_id {
                    cx.violation("ids-not-increasing", format!("step id {id} after {last_id}"));
                }
                last_id = *id;
                let clause = match ck.lits_of(literals) {
                    Ok(c) => c,
                    Err(e) => {
                        cx.violation("undefined-literal", e);
                        return;
                    }
                };
                cx.acc.count("nogoods_checked", 1);
                let txt = clause.iter().map(|p| p.to_string()).collect::<Vec<_>>().join(" | ");
                if let Some(h) = hints {
                    if let Some(bad) = h.iter().find(|x| **x >= *id) {
                        cx.violation("hint-refers-forward", format!("n {id} has hint {bad}"));
                    }
                }
                // Objective improvement cut of LinearSatUnsat: a unit clause over the objective
                // that cuts exactly at the value of a solution which is still admitted.
                let is_cut = matches!(kind, Kind::Optimise { unsat_sat: false, .. }) && clause.len() == 1 && clause[0].var == objective.var && {
                    let maximise = matches!(kind, Kind::Optimise { maximise: true, .. });
                    alive.iter().any(|s| {
                        let b = s[0];
                        let expected = if maximise { Pred::new(0, PredKind::Ge, b + 1) } else { Pred::new(0, PredKind::Le, b - 1) };
                        model.vars[0].values.iter().all(|v| clause[0].holds_val(*v) == expected.holds_val(*v))
                    })
                };
                let violated_by = alive.iter().find(|s| !clause.iter().any(|l| l.holds(s))).cloned();
                let mut admitted = false;
                if let Some(w) = violated_by {
                    if is_cut {
                        admitted = true;
                        alive.retain(|s| clause[0].holds(s));
                        cx.acc.count("objective_cuts_admitted", 1);
                    } else {
                        cx.violation(
                            "nogood-not-entailed-by-model",
                            format!("n {id}: clause [{txt}] is violated by solution {w:?}"),
                        );
                    }
                }
                for (iid, t) in unjustified.drain(..) {
                    if !admitted {
                        cx.violation(
                            "untagged-inference-not-justified",
                            format!("{t} (step {iid}) follows neither from a single posted constraint and the earlier unit nogoods, nor from an earlier nogood, nor from the domains"),
                        );
                    }
                }
                // derivation check (needs inferences, i.e. not for scaffold proofs)
                if proof_kind >= 1 && !admitted {
                    let usable: Vec<&Known> = match hints {
                        Some(h) if proof_kind == 2 => known.iter().filter(|(i, _)| h.contains(i)).map(|(_, f)| f).collect(),
                        _ => known.iter().map(|(_, f)| f).collect(),
                    };
                    if !ck.rcp(&clause, &usable) {
                        let hinted = hints.is_some() && proof_kind == 2;
                        // Is it only that the hint list omits earlier unit nogoods (root facts)?
                        let with_units: Vec<&Known> = known
                            .iter()
                            .filter(|(i, f)| {
                                hints.as_ref().is_some_and(|h| h.contains(i)) || matches!(f, Known::Clause(ls) if ls.len() == 1)
                            })
                            .map(|(_, f)| f)
                            .collect();
                        if hinted && ck.rcp(&clause, &with_units) {
                            cx.violation(
                                "hint-list-omits-unit-nogood",
                                format!("n {id}: clause [{txt}] is derived by reverse constraint propagation from the hinted steps {hints:?} only together with earlier unit nogoods that the hint list does not name"),
                            );
                        } else {
                            cx.violation(
                                format!("nogood-not-derivable{}", if hinted { "-from-hints" } else { "" }),
                                format!("n {id}: clause [{txt}] is not derived by reverse constraint propagation from {} usable steps (hints {hints:?})", usable.len()),
                            );
                        }
                    }
                }
                if clause.is_empty() {
                    seen_empty_nogood = true;
                }
                // inferences only justify the nogood that follows them
                known.retain(|(_, f)| matches!(f, Known::Clause(_)));
                pending_inference_ids.clear();
                known.push((*id, Known::Clause(clause)));
            }
            Step::Delete(id) => {
                known.retain(|(i, _)| i != id);
            }
            Step::Unsat => {
                cx.acc.outcome("unsat-conclusion");
                if !seen_empty_nogood {
                    cx.violation("unsat-without-empty-nogood", "c UNSAT is not preceded by the empty nogood");
                }
                if let Some(w) = sols.first() {
                    if kind == Kind::Satisfy || !result.contains("Optimal") {
                        cx.violation("unsat-conclusion-on-satisfiable-model", format!("c UNSAT but {w:?} is a solution"));
                    }
                }
            }
            Step::Optimal(code) => {
                cx.acc.outcome("optimal-conclusion");
                let bound = match ck.lit(*code) {
                    Ok(b) => b,
                    Err(e) => {
                        cx.violation("undefined-literal", e);
                        return;
                    }
                };
                let Kind::Optimise { maximise, .. } = kind else {
                    cx.violation("optimal-conclusion-for-satisfy", "c <lit> written for a satisfaction problem");
                    return;
                };
                let best = if maximise { sols.iter().map(|s| s[0]).max() } else { sols.iter().map(|s| s[0]).min() };
                let Some(best) = best else {
                    cx.violation("optimal-conclusion-on-unsat-model", format!("c {bound} but the model has no solution"));
                    return;
                };
                if bound.var != 0 {
                    cx.violation("optimality-bound-not-over-objective", format!("c {bound}"));
                    return;
                }
                // the dual bound: a true statement about every solution, tight at the optimum
                let expected = if maximise { Pred::new(0, PredKind::Le, best) } else { Pred::new(0, PredKind::Ge, best) };
                let same = model.vars[0].values.iter().all(|v| bound.holds_val(*v) == expected.holds_val(*v));
                if !same {
                    let primal = if maximise { Pred::new(0, PredKind::Ge, best) } else { Pred::new(0, PredKind::Le, best) };
                    let is_primal = model.vars[0].values.iter().all(|v| bound.holds_val(*v) == primal.holds_val(*v));
                    cx.violation(
                        if is_primal { "optimality-conclusion-is-primal-bound" } else { "wrong-optimality-bound" },
                        format!("c {bound}: the optimum of x0 is {best}; a correct (dual) bound is {expected}"),
                    );
                }
            }
        }
    }
    let _ = full_mask;
    let _ = pending_inference_ids;
}

fn fnv64(text: &str) -> u64 {
    let mut h: u64 = 0xcbf29ce484222325;
    for b in text.bytes() {
        h ^= b as u64;
        h = h.wrapping_mul(0x100000001b3);
    }
    h
}

/// Hashes of the case descriptions listed for the known finding (file
/// /verif/known_c06_inputs.json, written by tools/gen_c06_inputs.py from recording runs; never at
/// check time).
fn listed_inputs() -> &'static std::collections::HashSet<u64> {
    static LISTED: std::sync::OnceLock<std::collections::HashSet<u64>> = std::sync::OnceLock::new();
    LISTED.get_or_init(|| {
        let mut set = std::collections::HashSet::new();
        if let Ok(text) = std::fs::read_to_string("/verif/known_c06_inputs.json") {
            if let Ok(v) = serde_json::from_str::<Value>(&text) {
                if let Some(a) = v["hint-list-omits-unit-nogood"].as_array() {
                    set.extend(a.iter().filter_map(|x| x.as_u64()));
                }
            }
        }
        set
    })
}

/// Recording mode (PV_C06_RECORD=<directory>): `signature <tab> hash` per listed-kind violation.
fn record_input(sig: &str, hash: u64) {
    use std::io::Write;
    let Ok(dir) = std::env::var("PV_C06_RECORD") else { return };
    let path = format!("{dir}/{}.txt", std::process::id());
    if let Ok(mut f) = std::fs::OpenOptions::new().create(true).append(true).open(path) {
        let _ = writeln!(f, "{sig}\t{hash}");
    }
}
