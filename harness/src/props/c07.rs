//! C07: answers do not depend on the solver configuration.
use std::cell::RefCell;

use pumpkin_solver::termination::Indefinite;
use pumpkin_solver::verif_tap;
use serde_json::json;
use serde_json::Value;

use crate::drive::*;
use crate::gen;
use crate::orch::*;
use crate::refmodel::*;
use crate::solve::*;

pub struct C07;

fn models(tier: Tier) -> Vec<Model> {
    let mut v = vec![];
    match tier {
        Tier::Quick => {
            v.extend(gen::m3(0).into_iter().step_by(31));
            v.extend(gen::m4(0).into_iter().step_by(9));
            v.extend(gen::m5(0).into_iter().step_by(5));
            v.extend(gen::m7(0).into_iter().step_by(11));
            v.extend(gen::m8(0).into_iter().step_by(9));
            v.extend(gen::m9(0));
            v.extend(gen::m2(0).into_iter().step_by(997));
        }
        Tier::Thorough => {
            v.extend(gen::m3(1).into_iter().step_by(23));
            v.extend(gen::m4(1).into_iter().step_by(7));
            v.extend(gen::m5(1).into_iter().step_by(2));
            v.extend(gen::m7(1).into_iter().step_by(2));
            v.extend(gen::m8(1).into_iter().step_by(1));
            v.extend(gen::m9(1));
            v.extend(gen::m2(1).into_iter().step_by(1999));
            v.extend(gen::m1(1).into_iter().step_by(401));
        }
    }
    v
}

fn branchers(tier: Tier) -> Vec<BrancherSpec> {
    if tier.quick() {
        vec![
            BrancherSpec::Default,
            BrancherSpec::Indep(0, 0),
            BrancherSpec::Indep(9, 13),
            // the selectors that keep their own bookkeeping, inside a DynamicBrancher
            BrancherSpec::DynamicSplit(9, 1),
            BrancherSpec::DynamicSplit(8, 4),
        ]
    } else {
        let mut v = BrancherSpec::slice();
        v.push(BrancherSpec::Indep(5, 7));
        v.push(BrancherSpec::Indep(2, 11));
        v.push(BrancherSpec::DynamicSplit(1, 4));
        v.push(BrancherSpec::DynamicSplit(9, 1));
        v.push(BrancherSpec::DynamicSplit(8, 4));
        v.push(BrancherSpec::Alternating(3, 0, 1));
        v
    }
}

impl Property for C07 {
    fn id(&self) -> &'static str {
        "C07"
    }
    fn level(&self) -> &'static str {
        "exploration"
    }
    fn rule(&self, tier: Tier) -> String {
        format!(
            "The full product of solver options (resolver {{UIP, NoLearning}} x minimisation on/off x restarts {{none, constant(1), luby(1), geometric(1)}} x learned-nogood database {{default, limit 0/lbd, limit 1/activity, limit 2/lbd}} x seeds {{0,1,42}}; {} valid combinations) x {} branchers x conflict-rich models (strides of M3, M4, M2{}); per case three runs: satisfy verdict, complete solution set by iteration, minimum of the first variable; each must equal the brute-force reference (hence each other). Non-trivial = the model has at least one and not all assignments as solutions. The counters report how often each mechanism actually took effect (restarts, deletions, id reuse, no-learning backtracks).",
            Cfg::product().len(),
            branchers(tier).len(),
            if tier.quick() { "" } else { ", M1" }
        )
    }
    fn assumptions(&self) -> Vec<String> {
        vec![
            "restart-after-every-conflict is not combined with a forgetting nogood database (may legitimately livelock)".into(),
            "numeric options are covered through finite alphabets chosen so that every mechanism fires on small models".into(),
        ]
    }
    fn extra(&self, tier: Tier) -> Value {
        json!({"models": models(tier).len(), "configurations": Cfg::product().len(), "branchers": branchers(tier).len()})
    }
    fn run(&self, ctl: &mut Ctl) {
        let tier = ctl.tier;
        let ms = models(tier);
        let cfgs = Cfg::product();
        let brs = branchers(tier);
        let mut idx = 0u64;
        for model in &ms {
            let mut sols: Option<Vec<Vec<i32>>> = None;
            // the larger models of M9: in the quick tier only the learning configurations without
            // restarts / with restarts after every conflict (all nogood database variants)
            let heavy = tier.quick() && model.space_size() > 1500;
            for cfg in &cfgs {
                if heavy && !(cfg.uip && matches!(cfg.restart, RestartCfg::None | RestartCfg::Luby1)) {
                    continue;
                }
                for br in &brs {
                    let my = idx;
                    idx += 1;
                    if !ctl.want(my) {
                        continue;
                    }
                    let sols = sols.get_or_insert_with(|| model.solutions());
                    let desc = || format!("{} || {} || {}", model.describe(), cfg.describe(), br.describe());
                    ctl.case(my, &desc, &mut |cx| run_one(model, sols, cfg, br, cx));
                }
            }
        }
    }
}

fn account(cx: &mut CaseCtx, cfg: &Cfg) {
    let c = verif_tap::counters();
    cx.acc.count("conflicts", c.conflicts);
    if c.restarts > 0 {
        cx.acc.count(&format!("runs_with_restart[{:?}]", cfg.restart), 1);
    }
    if c.nogoods_deleted > 0 {
        cx.acc.count(&format!("runs_with_deletion[{:?}]", cfg.learn), 1);
    }
    if c.nogood_ids_reused > 0 {
        cx.acc.count(&format!("runs_with_id_reuse[{:?}]", cfg.learn), 1);
    }
    if c.no_learning_backtracks > 0 {
        cx.acc.count("runs_with_no_learning_backtrack", 1);
    }
    if c.backjumps_multi_level > 0 {
        cx.acc.count("runs_with_multi_level_backjump", 1);
    }
    if c.learned > 0 {
        cx.acc.count(&format!("runs_with_learning[minimise={}]", cfg.minimise), 1);
    }
}

pub fn run_one(model: &Model, sols: &[Vec<i32>], cfg: &Cfg, br: &BrancherSpec, cx: &mut CaseCtx) {
    cx.nontrivial = gen::nontrivial(model, sols.len());
    cx.sig_suffix = if cfg.uip { "uip".into() } else { "nolearn".into() };
    // 1. satisfy
    verif_tap::configure(Default::default());
    let Ok(mut b) = guard(|| build(model, cfg)) else {
        cx.violation("panic:post", "panic while posting");
        return;
    };
    if b.first_error().is_some() {
        cx.acc.outcome("post-error");
        if !sols.is_empty() {
            cx.violation("spurious-post-error", "post failed on a satisfiable model");
        }
        return;
    }
    let ids = b.ids.clone();
    let r = with_brancher(br, &mut b.solver, &ids, cfg.seed, Satisfy { ids: &ids, term: &mut Indefinite });
    account(cx, cfg);
    match r {
        Ok(SatOut::Sat(a)) => {
            cx.acc.outcome("sat");
            if let Err(e) = check_assignment(model, &a) {
                cx.violation("verdict-sat-with-non-solution", e);
            }
        }
        Ok(SatOut::Unsat) => {
            cx.acc.outcome("unsat");
            if !sols.is_empty() {
                cx.violation("verdict-differs:unsat", format!("Unsatisfiable under this configuration but {:?} is a solution", sols[0]));
            }
        }
        Ok(other) => cx.violation("verdict-inconclusive", format!("{other:?}")),
        Err(e) => cx.violation(format!("{}:satisfy", panic_sig(&e)), format!("panic in satisfy: {e}")),
    }
    // 2. solution set
    verif_tap::configure(Default::default());
    let Ok(mut b) = guard(|| build(model, cfg)) else { return };
    let ids = b.ids.clone();
    let (mut got, end) = with_brancher(
        br,
        &mut b.solver,
        &ids,
        cfg.seed,
        Iterate {
            ids: &ids,
            term: &mut Indefinite,
            cap: sols.len() + 2,
            stop_after: None,
            on_solution: &mut |_, _| {},
        },
    );
    account(cx, cfg);
    match end {
        IterEnd::Finished | IterEnd::Unsat => {
            let n = got.len();
            got.sort();
            got.dedup();
            let mut want = sols.to_vec();
            want.sort();
            if got != want || n != want.len() {
                cx.violation(
                    "solution-set-differs",
                    format!("iteration produced {n} solutions ({} distinct), the reference has {}", got.len(), want.len()),
                );
            }
        }
        IterEnd::Panic(e) => cx.violation(format!("{}:iterate", panic_sig(&e)), format!("panic in iteration: {e}")),
        other => cx.violation("iteration-inconclusive", format!("{other:?}")),
    }
    // 3. optimum
    verif_tap::configure(Default::default());
    let Ok(mut b) = guard(|| build(model, cfg)) else { return };
    let ids = b.ids.clone();
    let cb = RefCell::new(vec![]);
    let objective = b.view(&View::id(0));
    let unsat_sat = cx.idx % 2 == 1;
    let r = with_brancher(
        br,
        &mut b.solver,
        &ids,
        cfg.seed,
        Optimise {
            ids: &ids,
            term: &mut Indefinite,
            objective,
            maximise: false,
            unsat_sat,
            callback_solutions: &cb,
        },
    );
    account(cx, cfg);
    let best = sols.iter().map(|s| s[0]).min();
    match r {
        Ok(OptOut::Optimal(a)) => {
            if check_assignment(model, &a).is_err() || Some(a[0]) != best {
                cx.violation(
                    "optimum-differs",
                    format!("Optimal returned {a:?}; the true minimum of x0 is {best:?}"),
                );
            }
        }
        Ok(OptOut::Unsat) => {
            if best.is_some() {
                cx.violation("optimum-differs:unsat", "optimise reported Unsatisfiable on a satisfiable model");
            }
        }
        Ok(other) => cx.violation("optimise-inconclusive", format!("{other:?}")),
        Err(e) => cx.violation(format!("{}:optimise", panic_sig(&e)), format!("panic in optimise: {e}")),
    }
}
