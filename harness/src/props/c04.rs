//! C04: optimisation returns a true optimum.
use std::cell::RefCell;

use pumpkin_solver::termination::Indefinite;
use pumpkin_solver::verif_tap;
use serde_json::json;
use serde_json::Value;

use crate::drive::*;
use crate::gen;
use crate::orch::*;
use crate::refmodel::*;
use crate::solve::*;

pub struct C04;

fn models(tier: Tier) -> Vec<Model> {
    let mut v = vec![];
    match tier {
        Tier::Quick => {
            v.extend(gen::m1(0).into_iter().step_by(2));
            v.extend(gen::m2(0).into_iter().step_by(41));
            v.extend(gen::m3(0).into_iter().step_by(11));
            v.extend(gen::m5(0).into_iter().step_by(3));
        }
        Tier::Thorough => {
            v.extend(gen::m1(1).into_iter().step_by(3));
            v.extend(gen::m2(1).into_iter().step_by(61));
            v.extend(gen::m3(1).into_iter().step_by(7));
            v.extend(gen::m5(1).into_iter().step_by(1));
        }
    }
    // scheduling models: cumulative task sets (medium sets incl. the ones around time 0, the
    // decision-profile and negative-anchor sets of C08) under the default options, the incremental
    // propagators with incremental backtracking, and pointwise explanations with holes and
    // sequences; every start time (and view of it) is an objective
    let mut sets = crate::props::c08::medium_sets(tier);
    sets.extend(crate::props::c08::decision_profile_sets());
    sets.extend(crate::props::c08::negative_anchor_sets(tier).into_iter().step_by(if tier.quick() { 41 } else { 7 }));
    let opts = [
        CumOpts::default_opts(),
        CumOpts { holes: false, explanation: 1, sequence: false, method: 1, incremental_backtracking: true },
        CumOpts { holes: false, explanation: 0, sequence: true, method: 4, incremental_backtracking: true },
        CumOpts { holes: true, explanation: 2, sequence: true, method: 5, incremental_backtracking: false },
    ];
    for (i, ts) in sets.iter().enumerate() {
        for (k, o) in opts.iter().enumerate() {
            if !tier.quick() || (i + k) % 2 == 0 {
                v.push(ts.model(*o));
            }
        }
    }
    v
}

fn objective_views(var: usize, tier: Tier) -> Vec<View> {
    if tier.quick() {
        vec![View::id(var), View::new(var, -1, 0), View::new(var, 2, 1)]
    } else {
        vec![
            View::id(var),
            View::new(var, -1, 0),
            View::new(var, 2, 1),
            View::new(var, -3, -2),
            View::new(var, 1, -5),
        ]
    }
}

fn combos(tier: Tier) -> Vec<(Cfg, BrancherSpec)> {
    let cfgs = Cfg::slice();
    let brs = BrancherSpec::slice();
    let mut v = vec![];
    if tier.quick() {
        v.push((cfgs[0], brs[0].clone()));
        v.push((cfgs[1], brs[2].clone()));
        v.push((cfgs[3], brs[1].clone()));
        // (restarts only happen with a brancher that does not declare them pointless)
        v.push((cfgs[1], brs[0].clone()));
    } else {
        for (i, c) in cfgs.iter().enumerate() {
            v.push((*c, brs[i % brs.len()].clone()));
            v.push((*c, brs[(i + 2) % brs.len()].clone()));
            v.push((*c, brs[0].clone()));
        }
    }
    v
}

impl Property for C04 {
    fn id(&self) -> &'static str {
        "C04"
    }
    fn level(&self) -> &'static str {
        "exploration"
    }
    fn rule(&self, tier: Tier) -> String {
        format!(
            "Strides of the model spaces M1/M2/M3 (satisfiable, unsatisfiable and root-decided models) x objective in (every variable x {} views incl. negative scales and offsets) x {{minimise, maximise}} x {{LinearSatUnsat, LinearUnsatSat}} x {} (configuration, brancher) combinations; a case = one such tuple (all distinct); non-trivial = the model has >= 2 solutions with different objective values. Oracle: brute-force optimum.",
            objective_views(0, tier).len(),
            combos(tier).len()
        )
    }
    fn assumptions(&self) -> Vec<String> {
        vec![
            "objective views stay within i32 on the small domains used".into(),
            "the termination condition never fires, so Unknown/Satisfiable results are violations".into(),
        ]
    }
    fn extra(&self, tier: Tier) -> Value {
        json!({"models": models(tier).len()})
    }
    fn run(&self, ctl: &mut Ctl) {
        let tier = ctl.tier;
        let ms = models(tier);
        let combos = combos(tier);
        let mut idx = 0u64;
        for model in &ms {
            let mut sols: Option<Vec<Vec<i32>>> = None;
            for var in 0..model.vars.len() {
                for ov in objective_views(var, tier) {
                    for maximise in [false, true] {
                        for unsat_sat in [false, true] {
                            for (cfg, br) in &combos {
                                let my = idx;
                                idx += 1;
                                if !ctl.want(my) {
                                    continue;
                                }
                                let sols = sols.get_or_insert_with(|| model.solutions());
                                let desc = || {
                                    format!(
                                        "{} || {} {} via {} || {} || {}",
                                        model.describe(),
                                        if maximise { "maximise" } else { "minimise" },
                                        ov,
                                        if unsat_sat { "unsat-sat" } else { "sat-unsat" },
                                        cfg.describe(),
                                        br.describe()
                                    )
                                };
                                ctl.case(my, &desc, &mut |cx| {
                                    run_one(model, sols, &ov, maximise, unsat_sat, cfg, br, cx)
                                });
                            }
                        }
                    }
                }
            }
        }
    }
}

#[allow(clippy::too_many_arguments)]
pub fn run_one(
    model: &Model,
    sols: &[Vec<i32>],
    ov: &View,
    maximise: bool,
    unsat_sat: bool,
    cfg: &Cfg,
    br: &BrancherSpec,
    cx: &mut CaseCtx,
) {
    verif_tap::configure(Default::default());
    let values: Vec<i128> = sols.iter().map(|s| ov.eval(s)).collect();
    let best = if maximise {
        values.iter().max().copied()
    } else {
        values.iter().min().copied()
    };
    let distinct = {
        let mut v = values.clone();
        v.sort();
        v.dedup();
        v.len()
    };
    cx.nontrivial = distinct >= 2;
    let api = format!(
        "{}:{}",
        if maximise { "max" } else { "min" },
        if unsat_sat { "unsat-sat" } else { "sat-unsat" }
    );
    let mut b = match guard(|| build(model, cfg)) {
        Ok(b) => b,
        Err(e) => {
            cx.violation(format!("{}:post", panic_sig(&e)), format!("panic while posting: {e}"));
            return;
        }
    };
    if b.first_error().is_some() {
        cx.acc.outcome("post-error");
        return; // C02's business
    }
    let ids = b.ids.clone();
    let cb = RefCell::new(vec![]);
    let objective = b.view(ov);
    let r = with_brancher(
        br,
        &mut b.solver,
        &ids,
        cfg.seed,
        Optimise {
            ids: &ids,
            term: &mut Indefinite,
            objective,
            maximise,
            unsat_sat,
            callback_solutions: &cb,
        },
    );
    // callbacks: every callback solution satisfies the model (the property does not demand that
    // they improve strictly: LinearUnsatSat reports its first solution and later the optimal one)
    let mut last: Option<i128> = None;
    for s in cb.borrow().iter() {
        match s {
            Ok(a) => {
                if let Err(e) = check_assignment(model, a) {
                    cx.violation(format!("callback-non-solution:{api}"), e);
                }
                let v = ov.eval(a);
                last = Some(v);
            }
            Err(e) => cx.violation(format!("callback-partial-solution:{api}"), e.clone()),
        }
    }
    cx.acc.count("callback_solutions", cb.borrow().len() as u64);
    match r {
        Ok(OptOut::Optimal(a)) => {
            cx.acc.outcome("optimal");
            if let Err(e) = check_assignment(model, &a) {
                cx.violation(format!("optimal-is-not-a-solution:{api}"), e);
                return;
            }
            let v = ov.eval(&a);
            match best {
                Some(bv) if bv == v => {}
                Some(bv) => cx.violation(
                    format!("optimal-is-not-optimal:{api}"),
                    format!("Optimal returned {a:?} with objective {v}, but the true optimum is {bv}"),
                ),
                None => cx.violation(format!("optimal-on-unsat:{api}"), "Optimal on a model without solutions"),
            }
            let _ = last;
        }
        Ok(OptOut::Unsat) => {
            cx.acc.outcome("unsat");
            if let Some(s) = sols.first() {
                cx.violation(
                    format!("spurious-unsat:{api}"),
                    format!("optimise reported Unsatisfiable but {s:?} is a solution"),
                );
            }
        }
        Ok(OptOut::Satisfiable(_)) | Ok(OptOut::Unknown) => cx.violation(
            format!("inconclusive-without-termination:{api}"),
            "optimise returned Satisfiable/Unknown although the termination condition never fires",
        ),
        Ok(OptOut::Broken(e)) => cx.violation(format!("partial-solution:{api}"), e),
        Err(e) => cx.violation(format!("{}:{api}", panic_sig(&e)), format!("panic in optimise: {e}")),
    }
}
