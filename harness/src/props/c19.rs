//! C19: DRCP files written by the library read back unchanged.
use std::num::NonZero;
use std::num::NonZeroI32;
use std::num::NonZeroU32;
use std::num::NonZeroU64;

use drcp_format::reader::ProofReader;
use drcp_format::steps::Conclusion;
use drcp_format::steps::Step;
use drcp_format::writer::ProofWriter;
use drcp_format::AtomicConstraint;
use drcp_format::BoolAtomicConstraint;
use drcp_format::Comparison;
use drcp_format::Format;
use drcp_format::IntAtomicConstraint;
use drcp_format::LiteralDefinitions;
use serde_json::json;
use serde_json::Value;

use crate::orch::*;

pub struct C19;

#[derive(Clone, Debug, PartialEq, Eq)]
enum S {
    Inference {
        premises: Vec<i32>,
        propagated: Option<i32>,
        tag: Option<u32>,
        label: Option<&'static str>,
    },
    Nogood {
        literals: Vec<i32>,
        hints: Option<Vec<u64>>,
    },
    Delete(u64),
    Unsat,
    Optimal(i32),
}

const CODES: [i32; 6] = [1, -1, 2, -7, i32::MAX, -i32::MAX];

fn step_alphabet(tier: Tier) -> Vec<S> {
    let mut v = vec![];
    let premise_sets: Vec<Vec<i32>> = vec![vec![], vec![CODES[3]], vec![CODES[0], CODES[1], CODES[4]]];
    let tags: Vec<Option<u32>> = vec![None, Some(1), Some(u32::MAX)];
    let labels: Vec<Option<&'static str>> = vec![None, Some("a"), Some("_x9")];
    for p in &premise_sets {
        for prop in [None, Some(CODES[5]), Some(CODES[2])] {
            for t in &tags {
                for l in &labels {
                    v.push(S::Inference {
                        premises: p.clone(),
                        propagated: prop,
                        tag: *t,
                        label: *l,
                    });
                }
            }
        }
    }
    let lit_sets: Vec<Vec<i32>> = vec![vec![], vec![CODES[2]], vec![CODES[0], CODES[3]], vec![CODES[5], CODES[4], CODES[1]]];
    let hint_sets: Vec<Option<Vec<u64>>> = vec![None, Some(vec![]), Some(vec![1]), Some(vec![1, 2]), Some(vec![u64::MAX])];
    for l in &lit_sets {
        for h in &hint_sets {
            v.push(S::Nogood {
                literals: l.clone(),
                hints: h.clone(),
            });
        }
    }
    v.push(S::Delete(1));
    v.push(S::Delete(u64::MAX));
    if false && tier.quick() {
        // (thinning of the inference variants, no longer used)
        let mut k = 0;
        v.retain(|s| {
            if matches!(s, S::Inference { .. }) {
                k += 1;
                k % 2 == 0 || k < 8
            } else {
                true
            }
        });
    }
    v
}

fn conclusions() -> Vec<Option<S>> {
    vec![None, Some(S::Unsat), Some(S::Optimal(CODES[3])), Some(S::Optimal(CODES[4]))]
}

fn nz(c: i32) -> NonZeroI32 {
    NonZeroI32::new(c).unwrap()
}

/// Write the sequence with the library's writer; returns the bytes and the expected sequence
/// with the ids assigned by the writer.
fn write_sequence(steps: &[&S], conclusion: &Option<S>) -> Result<(Vec<u8>, Vec<(Option<u64>, S)>), String> {
    let mut buf: Vec<u8> = vec![];
    let mut expected = vec![];
    {
        let identity = |l: NonZeroI32| l;
        let mut w = ProofWriter::new(Format::Text, &mut buf, identity);
        for s in steps {
            match s {
                S::Inference {
                    premises,
                    propagated,
                    tag,
                    label,
                } => {
                    let id = w
                        .log_inference(
                            tag.and_then(NonZero::new),
                            *label,
                            premises.iter().map(|c| nz(*c)),
                            propagated.map(nz),
                        )
                        .map_err(|e| e.to_string())?;
                    expected.push((Some(id.get()), (*s).clone()));
                }
                S::Nogood { literals, hints } => {
                    let id = w
                        .log_nogood_clause(
                            literals.iter().map(|c| nz(*c)),
                            hints.as_ref().map(|h| h.iter().map(|x| NonZeroU64::new(*x).unwrap()).collect::<Vec<_>>()),
                        )
                        .map_err(|e| e.to_string())?;
                    expected.push((Some(id.get()), (*s).clone()));
                }
                S::Delete(id) => {
                    w.log_deletion(NonZeroU64::new(*id).unwrap()).map_err(|e| e.to_string())?;
                    expected.push((None, (*s).clone()));
                }
                _ => unreachable!(),
            }
        }
        match conclusion {
            None => {
                // dropping the writer flushes its buffer
                drop(w);
            }
            Some(S::Unsat) => {
                let _ = w.unsat().map_err(|e| e.to_string())?;
                expected.push((None, S::Unsat));
            }
            Some(S::Optimal(c)) => {
                let _ = w.optimal(nz(*c)).map_err(|e| e.to_string())?;
                expected.push((None, S::Optimal(*c)));
            }
            _ => unreachable!(),
        }
    }
    Ok((buf, expected))
}

fn read_sequence(bytes: &[u8]) -> Result<Vec<(Option<u64>, S)>, String> {
    let identity = |l: NonZero<i32>| l;
    let mut r = ProofReader::new(bytes, identity);
    let mut out = vec![];
    loop {
        let step = r.next_step().map_err(|e| format!("{e:?}"))?;
        let Some(step) = step else { break };
        // labels borrow from the reader's buffer: convert to owned data now
        let item = match step {
            Step::Inference(i) => {
                let label: Option<&'static str> = match i.hint_label {
                    None => None,
                    Some("a") => Some("a"),
                    Some("_x9") => Some("_x9"),
                    Some(_) => Some("<other label>"),
                };
                (
                    Some(i.id.get()),
                    S::Inference {
                        premises: i.premises.iter().map(|c| c.get()).collect(),
                        propagated: i.propagated.map(|c| c.get()),
                        tag: i.hint_constraint_id.map(|t| t.get()),
                        label,
                    },
                )
            }
            Step::Nogood(n) => (
                Some(n.id.get()),
                S::Nogood {
                    literals: n.literals.iter().map(|c| c.get()).collect(),
                    hints: n.hints.map(|h| h.iter().map(|x| x.get()).collect()),
                },
            ),
            Step::Delete(d) => (None, S::Delete(d.id.get())),
            Step::Conclusion(Conclusion::Unsatisfiable) => (None, S::Unsat),
            Step::Conclusion(Conclusion::Optimal(l)) => (None, S::Optimal(l.get())),
        };
        out.push(item);
    }
    Ok(out)
}

fn atomic_alphabet() -> Vec<AtomicConstraint<String>> {
    let mut v = vec![];
    let values = [0i64, 1, -1, i64::MIN + 1, i64::MAX - 1, i64::MIN, i64::MAX];
    for name in ["x", "_a1", "X_y"] {
        for cmp in [
            Comparison::Equal,
            Comparison::NotEqual,
            Comparison::LessThanEqual,
            Comparison::GreaterThanEqual,
        ] {
            for val in values {
                v.push(AtomicConstraint::Int(IntAtomicConstraint {
                    name: name.to_string(),
                    comparison: cmp,
                    value: val,
                }));
            }
        }
        for b in [true, false] {
            v.push(AtomicConstraint::Bool(BoolAtomicConstraint {
                name: name.to_string(),
                value: b,
            }));
        }
    }
    v
}

impl Property for C19 {
    fn id(&self) -> &'static str {
        "C19"
    }
    fn level(&self) -> &'static str {
        "exploration"
    }
    fn rule(&self, tier: Tier) -> String {
        format!(
            "(1) All step sequences of length 0..{} over an alphabet of {} steps (inferences with premises {{[], [l], [l,l,l]}} x conclusion {{none, l}} x tag {{none, 1, u32::MAX}} x label {{none, a, _x9}}; nogoods with literals {{[], 1, 2, 3 literals}} x hints {{None, Some([]), Some([1]), Some([1,2]), Some([u64::MAX])}}; deletions) followed by {{nothing, UNSAT, optimal(l)}}, literal codes from {:?}: written with ProofWriter (text format), read with ProofReader, compared step by step (ids, premises, conclusion, tag, label, hints incl. None vs Some([])). (2) all literal-definition files with <=2 codes x <=2 atomics each from an alphabet of {} atomics (3 identifiers x 4 comparisons x 7 values incl. i64::MIN/MAX, booleans): write -> parse -> equal. (3) double negation of every atomic. (4) for every atomic a proof using its code in both polarities is read back with the parsed literal definitions as the literal map and must mention the atomic / its negation. A case = one sequence / definition set / atomic; non-trivial = at least one step or definition.",
            if tier.quick() { 2 } else { 3 },
            step_alphabet(tier).len(),
            CODES,
            atomic_alphabet().len()
        )
    }
    fn assumptions(&self) -> Vec<String> {
        vec![
            "labels are valid identifiers (the format only admits those)".into(),
            "the text format only (the binary writer is todo!() in the library)".into(),
        ]
    }
    fn extra(&self, _tier: Tier) -> Value {
        json!({})
    }
    fn run(&self, ctl: &mut Ctl) {
        let tier = ctl.tier;
        let alpha = step_alphabet(tier);
        let concl = conclusions();
        let maxlen = if tier.quick() { 2 } else { 3 };
        let mut idx = 0u64;
        // (1) sequences
        let a = alpha.len();
        for len in 0..=maxlen {
            let total = a.pow(len as u32);
            for n in 0..total {
                for c in &concl {
                    let my = idx;
                    idx += 1;
                    if !ctl.want(my) {
                        continue;
                    }
                    let mut digits = vec![];
                    let mut x = n;
                    for _ in 0..len {
                        digits.push(x % a);
                        x /= a;
                    }
                    let steps: Vec<&S> = digits.iter().map(|d| &alpha[*d]).collect();
                    let desc = || format!("steps {:?} conclusion {:?}", steps, c);
                    ctl.case(my, &desc, &mut |cx| {
                        cx.nontrivial = len > 0 || c.is_some();
                        let written = guard(|| write_sequence(&steps, c));
                        let (bytes, expected) = match written {
                            Ok(Ok(x)) => x,
                            Ok(Err(e)) => {
                                cx.violation("writer-io-error", e);
                                return;
                            }
                            Err(e) => {
                                cx.violation(format!("{}:write", panic_sig(&e)), format!("writer panicked: {e}"));
                                return;
                            }
                        };
                        let text = String::from_utf8_lossy(&bytes).to_string();
                        match guard(|| read_sequence(&bytes)) {
                            Ok(Ok(got)) => {
                                if got != expected {
                                    // which step differs
                                    let k = got.iter().zip(&expected).position(|(a, b)| a != b).unwrap_or(got.len().min(expected.len()));
                                    let kind = match expected.get(k).map(|e| &e.1) {
                                        Some(S::Inference { .. }) => "inference",
                                        Some(S::Nogood { .. }) => "nogood",
                                        Some(S::Delete(_)) => "deletion",
                                        Some(_) => "conclusion",
                                        None => "extra-step",
                                    };
                                    cx.violation(
                                        format!("round-trip-differs:{kind}"),
                                        format!("written {:?}; file {:?}; read back {:?}", expected.get(k), text, got.get(k)),
                                    );
                                }
                            }
                            Ok(Err(e)) => {
                                let line = text.lines().last().unwrap_or("").to_string();
                                let kind = line.chars().next().unwrap_or('?');
                                cx.violation(
                                    format!("reader-rejects-writer-output:{kind}"),
                                    format!("file {text:?} is rejected by the reader: {e}"),
                                );
                            }
                            Err(e) => cx.violation(format!("{}:read", panic_sig(&e)), format!("reader panicked on {text:?}: {e}")),
                        }
                    });
                }
            }
        }
        // (2) literal definitions
        let atoms = atomic_alphabet();
        let codes: [u32; 3] = [1, 7, u32::MAX];
        let stride = if tier.quick() { 5 } else { 1 };
        for (i, a1) in atoms.iter().enumerate() {
            for (j, a2) in atoms.iter().enumerate().step_by(stride) {
                for shape in 0..3 {
                    let my = idx;
                    idx += 1;
                    if !ctl.want(my) {
                        continue;
                    }
                    // shape 0: one code one atomic; 1: one code two atomics; 2: two codes
                    let defs: Vec<(u32, Vec<AtomicConstraint<String>>)> = match shape {
                        0 => vec![(codes[(i + j) % 3], vec![a1.clone()])],
                        1 => vec![(codes[i % 3], vec![a1.clone(), a2.clone()])],
                        _ => vec![(codes[0], vec![a1.clone()]), (codes[1 + j % 2], vec![a2.clone()])],
                    };
                    let desc = || format!("definitions {:?}", defs);
                    ctl.case(my, &desc, &mut |cx| {
                        cx.nontrivial = true;
                        let mut ld = LiteralDefinitions::<String>::default();
                        for (c, ats) in &defs {
                            for a in ats {
                                ld.add(NonZeroU32::new(*c).unwrap(), a.clone());
                            }
                        }
                        let mut bytes = vec![];
                        if let Err(e) = guard(|| ld.write(&mut bytes)) {
                            cx.violation(format!("{}:lits-write", panic_sig(&e)), e);
                            return;
                        }
                        let text = String::from_utf8_lossy(&bytes).to_string();
                        match guard(|| LiteralDefinitions::<String>::parse(bytes.as_slice())) {
                            Ok(Ok(parsed)) => {
                                for (c, ats) in &defs {
                                    let got = parsed.get(NonZeroU32::new(*c).unwrap());
                                    if got != Some(ats.as_slice()) {
                                        cx.violation(
                                            "lits-round-trip-differs",
                                            format!("code {c}: written {ats:?}, file {text:?}, parsed {got:?}"),
                                        );
                                    }
                                }
                            }
                            Ok(Err(e)) => cx.violation("lits-reader-rejects-writer-output", format!("file {text:?}: {e:?}")),
                            Err(e) => cx.violation(format!("{}:lits-parse", panic_sig(&e)), format!("file {text:?}: {e}")),
                        }
                    });
                }
            }
        }
        // (4) a proof read back through its literal definitions: for every atomic a, a proof that
        // uses its code in both polarities (inference premise and conclusion, nogood literal,
        // optimality conclusion) is written with the writer, the definitions are written and parsed,
        // and the proof is read with the parsed definitions as the literal map: the steps must
        // mention a where +code was written and the negation of a where -code was written
        for (ai, a) in atoms.iter().enumerate() {
            let my = idx;
            idx += 1;
            let other = atoms[(ai + 7) % atoms.len()].clone();
            let desc = || format!("proof read through definitions 1 -> {other}, 2 -> {a}");
            ctl.case(my, &desc, &mut |cx| {
                cx.nontrivial = true;
                let steps = [
                    S::Inference { premises: vec![2, -1], propagated: Some(-2), tag: None, label: None },
                    S::Nogood { literals: vec![-2, 1], hints: None },
                ];
                let refs: Vec<&S> = steps.iter().collect();
                let (bytes, _) = match guard(|| write_sequence(&refs, &Some(S::Optimal(2)))) {
                    Ok(Ok(x)) => x,
                    Ok(Err(e)) => return cx.violation("writer-error", e),
                    Err(e) => return cx.violation(format!("{}:write", panic_sig(&e)), e),
                };
                let mut ld = LiteralDefinitions::<String>::default();
                ld.add(NonZeroU32::new(1).unwrap(), other.clone());
                ld.add(NonZeroU32::new(2).unwrap(), a.clone());
                let mut lits = vec![];
                if let Err(e) = guard(|| ld.write(&mut lits)) {
                    return cx.violation(format!("{}:lits-write", panic_sig(&e)), e);
                }
                let parsed = match guard(|| LiteralDefinitions::<String>::parse(lits.as_slice())) {
                    Ok(Ok(p)) => p,
                    Ok(Err(e)) => return cx.violation("lits-reader-rejects-writer-output", format!("{e:?}")),
                    Err(e) => return cx.violation(format!("{}:lits-parse", panic_sig(&e)), e),
                };
                let na = !a.clone();
                let no = !other.clone();
                let read = guard(|| -> Result<Vec<Vec<AtomicConstraint<String>>>, String> {
                    let mut r = ProofReader::new(bytes.as_slice(), parsed);
                    let mut out = vec![];
                    while let Some(step) = r.next_step().map_err(|e| format!("{e:?}"))? {
                        out.push(match step {
                            Step::Inference(i) => i.premises.iter().cloned().chain(i.propagated.clone()).collect(),
                            Step::Nogood(n) => n.literals.to_vec(),
                            Step::Delete(_) => vec![],
                            Step::Conclusion(Conclusion::Unsatisfiable) => vec![],
                            Step::Conclusion(Conclusion::Optimal(l)) => vec![l],
                        });
                    }
                    Ok(out)
                });
                let expected = vec![vec![a.clone(), no.clone(), na.clone()], vec![na.clone(), other.clone()], vec![a.clone()]];
                match read {
                    Ok(Ok(got)) => {
                        if got != expected {
                            cx.violation("atomics-read-through-definitions-differ", format!("expected {expected:?}, read {got:?}"));
                        }
                    }
                    Ok(Err(e)) => cx.violation("reader-rejects-writer-output", e),
                    Err(e) => cx.violation(format!("{}:read-through-definitions", panic_sig(&e)), e),
                }
            });
        }
        // (3) double negation
        for a in &atoms {
            let my = idx;
            idx += 1;
            let desc = || format!("double negation of {a}");
            ctl.case(my, &desc, &mut |cx| {
                cx.nontrivial = true;
                match guard(|| !!a.clone()) {
                    Ok(b) => {
                        if b != *a {
                            cx.violation("double-negation-differs", format!("!!{a} = {b}"));
                        }
                    }
                    Err(e) => cx.violation(format!("{}:negation", panic_sig(&e)), format!("negating {a} panicked: {e}")),
                }
            });
        }
    }
}
