//! C14: DIMACS CNF verdicts are correct, UNSAT comes with a checkable DRAT proof, equivalent
//! spellings of a formula give the same result.
//!
//! Part A (in-process): the repository's own `parsers/dimacs.rs` is compiled into the harness
//! and driven through a reader that delivers the bytes in every 1- and 2-cut chunking (short
//! reads) for every layout of the file with a bounded number of non-default separators.
//! Part B (CLI): the real binary is run end-to-end with `--proof-path`.
use std::io::Read;
use std::num::NonZeroI32;
use std::num::NonZeroU32;
use std::process::Command;

use pumpkin_solver::proof::ProofLog;
use pumpkin_solver::results::ProblemSolution;
use pumpkin_solver::results::SatisfactionResult;
use pumpkin_solver::termination::Indefinite;
use serde_json::json;
use serde_json::Value;

use crate::drive::Cfg;
use crate::orch::*;

#[allow(dead_code, unused_imports, unreachable_pub)]
#[path = "/repo/pumpkin-solver/src/bin/pumpkin-solver/parsers/dimacs.rs"]
mod dimacs;

use dimacs::DimacsSink;

pub struct C14;

pub const CLI: &str = "/verif/.build/cli/release/pumpkin-solver";

pub type Clause = Vec<i32>;

#[derive(Clone, Debug, PartialEq, Eq)]
pub struct Formula {
    pub n: usize,
    pub clauses: Vec<Clause>,
}

impl Formula {
    pub fn satisfiable(&self) -> Option<Vec<bool>> {
        for bits in 0..(1u32 << self.n) {
            let asg: Vec<bool> = (0..self.n).map(|i| bits >> i & 1 == 1).collect();
            if self.holds(&asg) {
                return Some(asg);
            }
        }
        None
    }
    pub fn holds(&self, asg: &[bool]) -> bool {
        self.clauses
            .iter()
            .all(|c| c.iter().any(|l| asg[l.unsigned_abs() as usize - 1] == (*l > 0)))
    }
    pub fn tokens(&self) -> Vec<String> {
        let mut t = vec![];
        for c in &self.clauses {
            for l in c {
                t.push(l.to_string());
            }
            t.push("0".to_string());
        }
        t
    }
    pub fn canonical(&self) -> String {
        let mut s = format!("p cnf {} {}\n", self.n, self.clauses.len());
        for c in &self.clauses {
            for l in c {
                s.push_str(&format!("{l} "));
            }
            s.push_str("0\n");
        }
        s
    }
}

/// All formulas with n variables and exactly m clauses of width <= w (ordered literal sequences,
/// so duplicate and tautological literals and the empty clause are members).
pub fn formulas(n: usize, m: usize, w: usize) -> Vec<Formula> {
    let lits: Vec<i32> = (1..=n as i32).flat_map(|v| [v, -v]).collect();
    let mut clauses: Vec<Clause> = vec![vec![]];
    let mut frontier: Vec<Clause> = vec![vec![]];
    for _ in 0..w {
        let mut next = vec![];
        for c in &frontier {
            for l in &lits {
                let mut d = c.clone();
                d.push(*l);
                next.push(d);
            }
        }
        clauses.extend(next.iter().cloned());
        frontier = next;
    }
    let mut out = vec![];
    let k = clauses.len();
    let total = k.pow(m as u32);
    for idx in 0..total {
        let mut x = idx;
        let mut cs = vec![];
        for _ in 0..m {
            cs.push(clauses[x % k].clone());
            x /= k;
        }
        out.push(Formula { n, clauses: cs });
    }
    out
}

const SEPARATORS: [&str; 7] = [" ", "  ", "\t", "\n", "\r\n", "\nc comment\n", " \nc x 1 0\n"];

/// Layouts of a formula: the header line, then the tokens joined by separators; `devs` lists
/// (position, separator index) deviations from the default single space / newline after 0.
pub fn layout(f: &Formula, devs: &[(usize, usize)], prefix: usize, suffix: usize) -> String {
    let tokens = f.tokens();
    let mut s = String::new();
    match prefix {
        1 => s.push_str("c leading comment\n"),
        2 => s.push_str("\n\n"),
        3 => s.push_str("c p cnf 9 9\n  \n"),
        _ => {}
    }
    s.push_str(&format!("p cnf {} {}\n", f.n, f.clauses.len()));
    for (i, t) in tokens.iter().enumerate() {
        s.push_str(t);
        if i + 1 < tokens.len() {
            let default = if t == "0" { "\n" } else { " " };
            let sep = devs
                .iter()
                .find(|(p, _)| *p == i)
                .map(|(_, k)| SEPARATORS[*k])
                .unwrap_or(default);
            s.push_str(sep);
        }
    }
    match suffix {
        0 => s.push('\n'),
        1 => {} // no trailing newline
        2 => s.push_str("\nc trailing comment"),
        3 => s.push_str(" \n\n"),
        _ => s.push_str("\nc trailing comment\n"),
    }
    s
}

/// A reader that hands out the bytes in the given chunks.
struct Chunked<'a> {
    data: &'a [u8],
    cuts: Vec<usize>,
    pos: usize,
}

impl Read for Chunked<'_> {
    fn read(&mut self, buf: &mut [u8]) -> std::io::Result<usize> {
        if self.pos >= self.data.len() {
            return Ok(0);
        }
        let next_cut = self
            .cuts
            .iter()
            .copied()
            .find(|c| *c > self.pos)
            .unwrap_or(self.data.len());
        let n = (next_cut - self.pos).min(buf.len());
        buf[..n].copy_from_slice(&self.data[self.pos..self.pos + n]);
        self.pos += n;
        Ok(n)
    }
}

/// A sink that only records what the parser delivers.
struct Recording {
    n: usize,
    clauses: Vec<Clause>,
}

impl DimacsSink for Recording {
    type ConstructorArgs = ();
    fn empty(_: (), num_variables: usize) -> Self {
        Recording {
            n: num_variables,
            clauses: vec![],
        }
    }
    fn add_hard_clause(&mut self, clause: &[NonZeroI32]) {
        self.clauses.push(clause.iter().map(|l| l.get()).collect());
    }
    fn add_soft_clause(&mut self, _weight: NonZeroU32, clause: &[NonZeroI32]) {
        self.clauses.push(clause.iter().map(|l| l.get()).collect());
    }
}

fn parse_recording(text: &str, cuts: Vec<usize>) -> Result<Formula, String> {
    let r = Chunked {
        data: text.as_bytes(),
        cuts,
        pos: 0,
    };
    match dimacs::parse_cnf::<Recording>(r, ()) {
        Ok(rec) => Ok(Formula {
            n: rec.n,
            clauses: rec.clauses,
        }),
        Err(e) => Err(e.to_string()),
    }
}

/// Solve the text in-process through the repository's parser and sink.
fn solve_in_process(text: &str) -> Result<Option<Vec<bool>>, String> {
    let opts = Cfg::default_cfg().options(ProofLog::default());
    let sink = dimacs::parse_cnf::<dimacs::SolverDimacsSink>(text.as_bytes(), dimacs::SolverArgs::new(opts))
        .map_err(|e| e.to_string())?;
    let mut solver = sink.solver;
    let mut brancher = solver.default_brancher();
    match solver.satisfy(&mut brancher, &mut Indefinite) {
        SatisfactionResult::Satisfiable(s) => Ok(Some(
            sink.variables.iter().map(|l| s.get_literal_value(*l)).collect(),
        )),
        SatisfactionResult::Unsatisfiable => Ok(None),
        SatisfactionResult::Unknown => Err("Unknown".into()),
    }
}

/// Forward RUP check: every lemma follows by unit propagation from the input and the earlier
/// lemmas; returns whether the empty clause was derived.
pub fn rup_check(f: &Formula, proof: &str) -> Result<bool, String> {
    let mut db: Vec<Clause> = f.clauses.clone();
    let mut has_empty = db.iter().any(|c| c.is_empty());
    for (ln, line) in proof.lines().enumerate() {
        let line = line.trim();
        if line.is_empty() {
            continue;
        }
        if let Some(rest) = line.strip_prefix('d') {
            let _ = rest; // deletions only weaken the database; ignoring them keeps RUP sound
            continue;
        }
        let mut lits: Vec<i32> = vec![];
        let mut terminated = false;
        for tok in line.split_whitespace() {
            let v: i32 = tok.parse().map_err(|_| format!("line {}: bad token {tok:?}", ln + 1))?;
            if v == 0 {
                terminated = true;
                break;
            }
            if v.unsigned_abs() as usize > f.n {
                return Err(format!("line {}: literal {v} is over an unknown variable", ln + 1));
            }
            lits.push(v);
        }
        if !terminated {
            return Err(format!("line {}: lemma not terminated by 0", ln + 1));
        }
        // unit propagation with the negated lemma
        let mut val: Vec<Option<bool>> = vec![None; f.n + 1];
        let mut conflict = false;
        for l in &lits {
            let want = *l < 0; // negation of the lemma literal
            match val[l.unsigned_abs() as usize] {
                Some(b) if b != want => conflict = true, // tautological lemma
                _ => val[l.unsigned_abs() as usize] = Some(want),
            }
        }
        while !conflict {
            let mut changed = false;
            for c in &db {
                let mut unassigned = vec![];
                let mut satisfied = false;
                for l in c {
                    match val[l.unsigned_abs() as usize] {
                        Some(b) if b == (*l > 0) => satisfied = true,
                        Some(_) => {}
                        None => unassigned.push(*l),
                    }
                }
                if satisfied {
                    continue;
                }
                unassigned.dedup();
                let distinct: Vec<i32> = {
                    let mut u = unassigned.clone();
                    u.sort();
                    u.dedup();
                    u
                };
                if distinct.is_empty() {
                    conflict = true;
                    break;
                }
                if distinct.len() == 1 {
                    val[distinct[0].unsigned_abs() as usize] = Some(distinct[0] > 0);
                    changed = true;
                }
            }
            if !changed {
                break;
            }
        }
        if !conflict {
            return Err(format!("line {}: lemma {lits:?} is not RUP", ln + 1));
        }
        if lits.is_empty() {
            has_empty = true;
        }
        db.push(lits);
    }
    Ok(has_empty)
}

pub struct CliOut {
    pub status: Option<i32>,
    pub stdout: String,
    pub stderr: String,
}

impl CliOut {
    /// `panicked at <file>:<line>:<col>:\n<message>` -> stable signature `<file>:<message start>`
    pub fn panic_site(&self) -> Option<String> {
        let i = self.stderr.find("panicked at ")?;
        let rest = &self.stderr[i + 12..];
        let mut lines = rest.lines();
        let loc = lines.next()?.trim().trim_end_matches(':');
        let file = loc.split(':').next().unwrap_or(loc);
        let msg: String = lines
            .next()
            .unwrap_or("")
            .chars()
            .take(40)
            .map(|c| if c.is_ascii_alphanumeric() { c } else { '_' })
            .collect();
        Some(format!("{file}:{msg}"))
    }
}

pub fn run_cli(args: &[&str], timeout_s: u64) -> Result<CliOut, String> {
    let mut child = Command::new("timeout")
        .arg(format!("{timeout_s}"))
        .arg(std::env::var("PV_CLI_BIN").unwrap_or_else(|_| CLI.to_string()))
        .args(args)
        .env("RUST_BACKTRACE", "0")
        .stdout(std::process::Stdio::piped())
        .stderr(std::process::Stdio::piped())
        .spawn()
        .map_err(|e| e.to_string())?;
    let mut stderr_pipe = child.stderr.take().unwrap();
    let err_thread = std::thread::spawn(move || {
        let mut e = String::new();
        let _ = stderr_pipe.read_to_string(&mut e);
        e
    });
    let mut out = String::new();
    let _ = child.stdout.take().unwrap().read_to_string(&mut out);
    let st = child.wait().map_err(|e| e.to_string())?;
    let err = err_thread.join().unwrap_or_default();
    Ok(CliOut {
        status: st.code(),
        stdout: out,
        stderr: err,
    })
}

/// The binary built with the verification hooks (`--cfg pumpkin_verif`): its time budgets can be
/// made to fire at a given poll through `PUMPKIN_VERIF_STOP_AT_POLL`.
pub const CLI_HOOKED: &str = "/verif/.build/clihook/release/pumpkin-solver";

pub fn build_cli_hooked() -> Result<(), String> {
    let st = Command::new("bash")
        .arg("-c")
        .arg("cd /repo && flock /verif/.build/clihook.lock env RUSTFLAGS='--cfg pumpkin_verif' CARGO_NET_OFFLINE=true CARGO_TARGET_DIR=/verif/.build/clihook CARGO_PROFILE_RELEASE_LTO=off CARGO_PROFILE_RELEASE_CODEGEN_UNITS=16 cargo build --release --offline -p pumpkin-solver --bin pumpkin-solver > /verif/.build/clihook_build.log 2>&1")
        .status()
        .map_err(|e| e.to_string())?;
    if st.success() {
        Ok(())
    } else {
        Err("building the hooked CLI failed, see /verif/.build/clihook_build.log".into())
    }
}

/// Runs the hooked binary with its time budget firing at poll `stop_at`.
pub fn run_cli_hooked(args: &[&str], timeout_s: u64, stop_at: u64) -> Result<CliOut, String> {
    let out = Command::new("timeout")
        .arg(format!("{timeout_s}"))
        .arg(CLI_HOOKED)
        .args(args)
        .env("RUST_BACKTRACE", "0")
        .env("PUMPKIN_VERIF_STOP_AT_POLL", stop_at.to_string())
        .output()
        .map_err(|e| e.to_string())?;
    Ok(CliOut {
        status: out.status.code(),
        stdout: String::from_utf8_lossy(&out.stdout).into_owned(),
        stderr: String::from_utf8_lossy(&out.stderr).into_owned(),
    })
}

pub fn scratch_dir() -> String {
    let d = format!("/verif/.build/tmp/{}", std::process::id());
    let _ = std::fs::create_dir_all(&d);
    d
}

pub fn build_cli() -> Result<(), String> {
    // (debugging aid: run against another build of the binary, e.g. a coverage build)
    if std::env::var("PV_CLI_BIN").is_ok() {
        return Ok(());
    }
    let st = Command::new("bash")
        .arg("-c")
        .arg("cd /repo && flock /verif/.build/cli.lock env CARGO_NET_OFFLINE=true CARGO_TARGET_DIR=/verif/.build/cli CARGO_PROFILE_RELEASE_LTO=off CARGO_PROFILE_RELEASE_CODEGEN_UNITS=16 cargo build --release --offline -p pumpkin-solver --bin pumpkin-solver > /verif/.build/cli_build.log 2>&1")
        .status()
        .map_err(|e| e.to_string())?;
    if st.success() {
        Ok(())
    } else {
        Err("building the CLI failed, see /verif/.build/cli_build.log".into())
    }
}

/// Structured formulas whose refutation needs search, learning and (for some) restarts, so that the
/// DRAT output contains real learned lemmas: pigeonhole, complete sign-pattern formulas with and
/// without one clause, xor chains with auxiliary variables, cardinality contradictions, the
/// ordering principle, and polarity flips of one pigeonhole instance. At most 20 variables (the
/// truth is brute-forced).
pub fn structured_formulas(tier: Tier) -> Vec<Formula> {
    let mut out = vec![];
    let php = |p: usize, h: usize| {
        let var = |i: usize, j: usize| (i * h + j + 1) as i32;
        let mut clauses: Vec<Clause> = vec![];
        for i in 0..p {
            clauses.push((0..h).map(|j| var(i, j)).collect());
        }
        for j in 0..h {
            for a in 0..p {
                for b in a + 1..p {
                    clauses.push(vec![-var(a, j), -var(b, j)]);
                }
            }
        }
        Formula { n: p * h, clauses }
    };
    let phps: &[(usize, usize)] = if tier.quick() { &[(3, 2), (4, 3), (3, 3)] } else { &[(2, 1), (3, 2), (4, 3), (5, 4), (3, 3), (4, 4), (4, 5), (6, 3)] };
    for &(p, h) in phps {
        out.push(php(p, h));
    }
    // polarity flips of PHP(4,3): one variable at a time, and all of them
    let base = php(4, 3);
    let flips: Vec<Vec<usize>> = if tier.quick() { vec![vec![1], vec![6], (1..=12).collect()] } else { (1..=12).map(|v| vec![v]).chain([(1..=12).collect::<Vec<_>>(), vec![1, 5, 9], vec![2, 4, 6, 8]]).collect() };
    for fl in flips {
        let clauses = base.clauses.iter().map(|c| c.iter().map(|l| if fl.contains(&(l.unsigned_abs() as usize)) { -*l } else { *l }).collect()).collect();
        out.push(Formula { n: 12, clauses });
    }
    // all 2^n sign patterns over n variables (unsatisfiable), and each with one clause removed
    // (exactly one model)
    for n in if tier.quick() { 3..=4usize } else { 2..=5usize } {
        let all: Vec<Clause> = (0..(1u32 << n)).map(|bits| (0..n).map(|i| if bits >> i & 1 == 1 { (i + 1) as i32 } else { -((i + 1) as i32) }).collect()).collect();
        out.push(Formula { n, clauses: all.clone() });
        let step = if tier.quick() { 5 } else { 1 };
        for k in (0..all.len()).step_by(step) {
            let mut c = all.clone();
            let _ = c.remove(k);
            out.push(Formula { n, clauses: c });
        }
    }
    // xor chains: x1 ^ ... ^ xn computed left to right into auxiliary variables and asserted to
    // be `want`, and computed right to left and asserted to be the opposite (or the same)
    let xor3 = |a: i32, b: i32, t: i32, clauses: &mut Vec<Clause>| {
        // t <-> a ^ b
        clauses.push(vec![-a, -b, -t]);
        clauses.push(vec![a, b, -t]);
        clauses.push(vec![a, -b, t]);
        clauses.push(vec![-a, b, t]);
    };
    for n in if tier.quick() { 4..=5usize } else { 3..=7usize } {
        for same in [false, true] {
            let mut clauses = vec![];
            let mut next = n as i32 + 1;
            let mut acc = 1;
            for i in 2..=n as i32 {
                xor3(acc, i, next, &mut clauses);
                acc = next;
                next += 1;
            }
            let left = acc;
            let mut acc = n as i32;
            for i in (1..n as i32).rev() {
                xor3(acc, i, next, &mut clauses);
                acc = next;
                next += 1;
            }
            clauses.push(vec![left]);
            clauses.push(vec![if same { acc } else { -acc }]);
            out.push(Formula { n: (next - 1) as usize, clauses });
        }
    }
    // cardinality: at least k of n true, and at most k-1 (unsatisfiable) or at most k (satisfiable)
    fn subsets(n: usize, k: usize) -> Vec<Vec<usize>> {
        let mut out = vec![];
        for bits in 0..(1u32 << n) {
            if bits.count_ones() as usize == k {
                out.push((0..n).filter(|i| bits >> i & 1 == 1).collect());
            }
        }
        out
    }
    for n in if tier.quick() { 4..=5usize } else { 3..=7usize } {
        for k in 2..n {
            for slack in [0usize, 1] {
                let mut clauses: Vec<Clause> = vec![];
                for sub in subsets(n, n - k + 1) {
                    clauses.push(sub.iter().map(|i| (*i + 1) as i32).collect());
                }
                let most = k - 1 + slack;
                for sub in subsets(n, most + 1) {
                    clauses.push(sub.iter().map(|i| -((*i + 1) as i32)).collect());
                }
                out.push(Formula { n, clauses });
            }
        }
    }
    // ordering principle: a total order on n elements without a minimum
    for n in if tier.quick() { 3..=4usize } else { 3..=4usize } {
        let var = |i: usize, j: usize| (i * n + j + 1) as i32; // i < j in the order (i != j)
        let mut clauses: Vec<Clause> = vec![];
        for i in 0..n {
            clauses.push(vec![-var(i, i)]);
            for j in 0..n {
                if i != j {
                    clauses.push(vec![var(i, j), var(j, i)]);
                    clauses.push(vec![-var(i, j), -var(j, i)]);
                    for k in 0..n {
                        if k != i && k != j {
                            clauses.push(vec![-var(i, j), -var(j, k), var(i, k)]);
                        }
                    }
                }
            }
            // i is not a minimum: something is smaller
            clauses.push((0..n).filter(|j| *j != i).map(|j| var(j, i)).collect());
        }
        out.push(Formula { n: n * n, clauses });
    }
    out.retain(|f| f.n <= 20);
    out
}

fn part_a_formulas(tier: Tier) -> Vec<Formula> {
    let mut v = vec![];
    if tier.quick() {
        v.extend(formulas(1, 0, 0));
        v.extend(formulas(1, 1, 2));
        v.extend(formulas(2, 1, 2));
        v.extend(formulas(2, 2, 2).into_iter().step_by(3));
        v.extend(formulas(2, 3, 1));
        v.extend(formulas(3, 2, 2).into_iter().step_by(41));
    } else {
        v.extend(formulas(1, 0, 0));
        v.extend(formulas(1, 1, 3));
        v.extend(formulas(1, 2, 2));
        v.extend(formulas(2, 1, 3));
        v.extend(formulas(2, 2, 2));
        v.extend(formulas(2, 3, 2).into_iter().step_by(7));
        v.extend(formulas(3, 2, 2).into_iter().step_by(5));
        v.extend(formulas(3, 3, 2).into_iter().step_by(307));
        v.extend(formulas(3, 4, 1).into_iter().step_by(3));
    }
    v
}

impl Property for C14 {
    fn id(&self) -> &'static str {
        "C14"
    }
    fn level(&self) -> &'static str {
        "fault_enumeration"
    }
    fn case_cap_ms(&self, _tier: Tier) -> u64 {
        60_000
    }
    fn prepare(&self, _tier: Tier) -> Result<(), String> {
        build_cli()
    }
    fn rule(&self, tier: Tier) -> String {
        format!(
            "{} CNF formulas over <=3 variables as ordered literal sequences (empty formula, empty clause, unit, duplicate and tautological clauses included). Part A, in-process on the repository's own parsers/dimacs.rs: for every formula all layouts with <=2 non-default separators out of {{two spaces, tab, newline, CRLF, comment line, trailing-space+comment line}} between any two tokens x 4 prefixes x 5 suffixes (<=1 deviation), and for the layouts with <=1 deviation every 1-cut and every 2-cut chunking of the byte stream (short reads): the parser must deliver exactly the formula; the verdict through the repository's sink equals brute force and the model satisfies every clause. Part B, the real binary on every formula and on {} structured formulas of up to 20 variables whose refutation needs learned lemmas (pigeonhole incl. polarity flips, complete sign-pattern formulas with and without one clause, xor chains with auxiliary variables, cardinality contradictions, ordering principle) (canonical spelling and two layouts) with --proof-path, and once more under --time-limit 0 (the answer may be s UNKNOWN but must not be wrong): s/v lines are checked against brute force and the proof against an own forward RUP checker (every lemma RUP, empty clause present). A case = one formula (part A) or one formula (part B); the counters give the numbers of layouts, chunkings and CLI runs.",
            part_a_formulas(tier).len(),
            structured_formulas(tier).len()
        )
    }
    fn assumptions(&self) -> Vec<String> {
        vec![
            "headers are spelled 'p cnf <n> <m>' with single spaces; literals do not exceed the declared variable count; the declared clause count is correct".into(),
            "ignoring deletion lines in the RUP check is sound (a larger clause database only makes RUP easier to establish for true consequences)".into(),
        ]
    }
    fn extra(&self, _tier: Tier) -> Value {
        json!({"separators": SEPARATORS})
    }
    fn run(&self, ctl: &mut Ctl) {
        let tier = ctl.tier;
        let fs = part_a_formulas(tier);
        let mut idx = 0u64;
        // ---- part A ----
        for f in &fs {
            let my = idx;
            idx += 1;
            let desc = || format!("A: {:?}", f.canonical());
            ctl.case(my, &desc, &mut |cx| {
                let truth = f.satisfiable();
                cx.nontrivial = !f.clauses.is_empty();
                // verdict through the repository's sink
                match guard(|| solve_in_process(&f.canonical())) {
                    Ok(Ok(Some(m))) => {
                        cx.acc.outcome("sat");
                        if !f.holds(&m) {
                            cx.violation("model-violates-clause", format!("model {m:?} does not satisfy the formula"));
                        }
                    }
                    Ok(Ok(None)) => {
                        cx.acc.outcome("unsat");
                        if let Some(w) = truth {
                            cx.violation("spurious-unsat", format!("UNSAT reported but {w:?} is a model"));
                        }
                    }
                    Ok(Err(e)) => cx.violation("canonical-file-rejected", e),
                    Err(e) => cx.violation(format!("{}:solve", panic_sig(&e)), e),
                }
                // layouts
                let ntok = f.tokens().len();
                let mut layouts: Vec<(String, usize)> = vec![]; // (text, number of deviations)
                layouts.push((layout(f, &[], 0, 0), 0));
                for p in 1..4 {
                    layouts.push((layout(f, &[], p, 0), 1));
                }
                for s in 1..5 {
                    layouts.push((layout(f, &[], 0, s), 1));
                }
                for pos in 0..ntok.saturating_sub(1) {
                    for k in 1..SEPARATORS.len() {
                        layouts.push((layout(f, &[(pos, k)], 0, 0), 1));
                        for pos2 in pos + 1..ntok.saturating_sub(1) {
                            for k2 in 1..SEPARATORS.len() {
                                layouts.push((layout(f, &[(pos, k), (pos2, k2)], 0, 0), 2));
                            }
                        }
                        layouts.push((layout(f, &[(pos, k)], 1, 4), 2));
                        layouts.push((layout(f, &[(pos, k)], 0, 1), 2));
                    }
                }
                for (text, devs) in &layouts {
                    cx.acc.count("layouts", 1);
                    let n = text.len();
                    let mut cuttings: Vec<Vec<usize>> = vec![vec![]];
                    if *devs <= 1 {
                        for a in 1..n {
                            cuttings.push(vec![a]);
                        }
                        if tier.quick() {
                            for a in (1..n).step_by(3) {
                                for b in (a + 1..n).step_by(2) {
                                    cuttings.push(vec![a, b]);
                                }
                            }
                        } else {
                            for a in 1..n {
                                for b in a + 1..n {
                                    cuttings.push(vec![a, b]);
                                }
                            }
                        }
                    }
                    for cuts in cuttings {
                        cx.acc.count("parses", 1);
                        let ncuts = cuts.len();
                        match guard(|| parse_recording(text, cuts.clone())) {
                            Ok(Ok(got)) => {
                                if got != *f {
                                    cx.violation(
                                        format!("layout-changes-formula:cuts{ncuts}"),
                                        format!("file {text:?} (chunks cut at {cuts:?}) parsed as {got:?}"),
                                    );
                                }
                            }
                            Ok(Err(e)) => cx.violation(
                                format!("well-formed-file-rejected:cuts{ncuts}"),
                                format!("file {text:?} (chunks cut at {cuts:?}) is rejected: {e}"),
                            ),
                            Err(e) => cx.violation(format!("{}:parse", panic_sig(&e)), format!("file {text:?}: {e}")),
                        }
                    }
                }
            });
        }
        // ---- part B ----
        let dir = scratch_dir();
        let structured = structured_formulas(tier);
        // (formula whose truth is brute-forced, the same formula as it is written to the file)
        let mut items: Vec<(Formula, Formula)> = fs.iter().chain(structured.iter()).map(|f| (f.clone(), f.clone())).collect();
        // the same formulas over variable indices beyond 2^16: shifted as a block, spread out, and
        // with only the last variables moved up
        let renamed_bases: Vec<&Formula> = structured
            .iter()
            .step_by(if tier.quick() { 3 } else { 1 })
            .chain(fs.iter().step_by(if tier.quick() { 29 } else { 7 }))
            .filter(|f| f.n >= 1)
            .collect();
        for base in renamed_bases {
            for kind in 0..3 {
                let map = |v: usize| -> usize {
                    match kind {
                        0 => v + 65535,
                        1 => v * 3000 + 60000,
                        _ => {
                            if v * 2 > base.n {
                                v + 65536
                            } else {
                                v
                            }
                        }
                    }
                };
                let clauses: Vec<Clause> = base.clauses.iter().map(|c| c.iter().map(|l| (map(l.unsigned_abs() as usize) as i32) * l.signum()).collect()).collect();
                items.push((base.clone(), Formula { n: map(base.n), clauses }));
            }
        }
        for (fi, (orig, f)) in items.iter().enumerate() {
            let my = idx;
            idx += 1;
            let desc = || if f.n > 64 { format!("B: (n = {}) {:?}", f.n, f.canonical()) } else { format!("B: {:?}", f.canonical()) };
            ctl.case(my, &desc, &mut |cx| {
                let truth = orig.satisfiable();
                cx.nontrivial = !f.clauses.is_empty();
                if f.n != orig.n {
                    cx.acc.count("formulas_over_variable_indices_beyond_65535", 1);
                }
                let texts = [
                    f.canonical(),
                    layout(f, &[(0, 5)], 1, 1),
                    layout(f, &[(fi % f.tokens().len().max(1), 3)], 2, 3),
                ];
                for (k, text) in texts.iter().enumerate() {
                    let path = format!("{dir}/c14_{my}_{k}.cnf");
                    let proof = format!("{dir}/c14_{my}_{k}.drat");
                    let _ = std::fs::remove_file(&proof);
                    std::fs::write(&path, text).expect("write cnf");
                    cx.acc.count("cli_runs", 1);
                    let out = match run_cli(&[&path, "--proof-path", &proof], 20) {
                        Ok(o) => o,
                        Err(e) => panic!("harness: cannot run the CLI: {e}"),
                    };
                    let s_line = out.stdout.lines().find(|l| l.starts_with("s "));
                    match (out.status, s_line) {
                        (Some(0), Some("s SATISFIABLE")) => {
                            cx.acc.outcome("cli-sat");
                            let v = out.stdout.lines().find(|l| l.starts_with("v "));
                            match v {
                                None => cx.violation("cli-missing-model-line", format!("file {text:?}: no v line")),
                                Some(v) => {
                                    let lits: Vec<i32> = v[2..].split_whitespace().filter_map(|t| t.parse().ok()).collect();
                                    let mut asg = vec![None; f.n];
                                    for l in &lits {
                                        if *l != 0 && (l.unsigned_abs() as usize) <= f.n {
                                            asg[l.unsigned_abs() as usize - 1] = Some(*l > 0);
                                        }
                                    }
                                    if asg.iter().any(|a| a.is_none()) || !f.holds(&asg.iter().map(|a| a.unwrap()).collect::<Vec<_>>()) {
                                        cx.violation("cli-model-violates-clause", format!("file {text:?}: model line {v:?} does not satisfy the formula"));
                                    }
                                }
                            }
                            if truth.is_none() {
                                cx.violation("cli-sat-on-unsat", format!("file {text:?}"));
                            }
                        }
                        (Some(0), Some("s UNSATISFIABLE")) => {
                            cx.acc.outcome("cli-unsat");
                            if let Some(w) = &truth {
                                cx.violation("cli-spurious-unsat", format!("file {text:?}: {w:?} is a model"));
                            }
                            let p = std::fs::read_to_string(&proof).unwrap_or_default();
                            match rup_check(f, &p) {
                                Ok(true) => {
                                    cx.acc.count("proofs_checked", 1);
                                    cx.acc.count("proof_lemmas_checked", p.lines().filter(|l| !l.trim().is_empty() && !l.trim_start().starts_with('d')).count() as u64);
                                }
                                Ok(false) => cx.violation("proof-without-empty-clause", format!("file {text:?}: proof {p:?} does not derive the empty clause")),
                                Err(e) => cx.violation("proof-not-rup", format!("file {text:?}: proof {p:?}: {e}")),
                            }
                        }
                        (st, s) => cx.violation(
                            format!("cli-failed:layout{k}"),
                            format!("file {text:?}: exit status {st:?}, status line {s:?}, output {:?}", out.stdout.chars().take(300).collect::<String>()),
                        ),
                    }
                    let _ = std::fs::remove_file(&path);
                    let _ = std::fs::remove_file(&proof);
                }
                // the same formula under an exhausted time budget (--time-limit 0) with a proof
                // file: whatever is reported must still be true - s UNKNOWN, a verified model, or
                // s UNSATISFIABLE only for a formula without models and with a complete proof
                {
                    let path = format!("{dir}/c14_{my}_t.cnf");
                    let proof = format!("{dir}/c14_{my}_t.drat");
                    let _ = std::fs::remove_file(&proof);
                    std::fs::write(&path, &texts[0]).expect("write cnf");
                    cx.acc.count("cli_runs", 1);
                    let out = run_cli(&[&path, "--time-limit", "0", "--proof-path", &proof], 20).expect("run cli");
                    let s_line = out.stdout.lines().find(|l| l.starts_with("s "));
                    match (out.status, s_line) {
                        (Some(0), Some("s UNKNOWN")) => cx.acc.outcome("cli-unknown-under-time-limit-0"),
                        (Some(0), Some("s SATISFIABLE")) => {
                            let lits: Vec<i32> = out.stdout.lines().find(|l| l.starts_with("v ")).map(|v| v[2..].split_whitespace().filter_map(|t| t.parse().ok()).collect()).unwrap_or_default();
                            let mut asg = vec![None; f.n];
                            for l in &lits {
                                if *l != 0 && (l.unsigned_abs() as usize) <= f.n {
                                    asg[l.unsigned_abs() as usize - 1] = Some(*l > 0);
                                }
                            }
                            if asg.iter().any(|a| a.is_none()) || !f.holds(&asg.iter().map(|a| a.unwrap()).collect::<Vec<_>>()) {
                                cx.violation("cli-model-violates-clause:time-limit-0", "s SATISFIABLE under --time-limit 0 with a model that does not satisfy the formula".to_string());
                            }
                        }
                        (Some(0), Some("s UNSATISFIABLE")) => {
                            if let Some(w) = &truth {
                                cx.violation("cli-spurious-unsat:time-limit-0", format!("s UNSATISFIABLE under --time-limit 0 but {w:?} is a model"));
                            } else {
                                let p = std::fs::read_to_string(&proof).unwrap_or_default();
                                match rup_check(f, &p) {
                                    Ok(true) => {}
                                    Ok(false) => cx.violation("proof-without-empty-clause:time-limit-0", format!("proof {p:?}")),
                                    Err(e) => cx.violation("proof-not-rup:time-limit-0", format!("proof {p:?}: {e}")),
                                }
                            }
                        }
                        (st, s) => cx.violation("cli-failed:time-limit-0", format!("exit status {st:?}, status line {s:?}")),
                    }
                    let _ = std::fs::remove_file(&path);
                    let _ = std::fs::remove_file(&proof);
                }
            });
        }
    }
}
