//! C09: reified and half-reified constraints have implication / equivalence semantics;
//! negation admits exactly the complement.
use pumpkin_solver::termination::Indefinite;
use pumpkin_solver::verif_tap;
use serde_json::json;
use serde_json::Value;

use crate::drive::*;
use crate::gen;
use crate::orch::*;
use crate::props::c17;
use crate::refmodel::*;
use crate::solve::*;

pub struct C09;

/// How the reification literal is set up.
#[derive(Clone, Copy, Debug, PartialEq, Eq)]
pub enum LitStatus {
    Free,
    /// fixed true by a clause posted before the constraint
    TrueBefore,
    FalseBefore,
    /// fixed by a clause posted after the constraint
    TrueAfter,
    FalseAfter,
    /// the negative literal of a free variable is used
    NegativeFree,
}

const STATUSES: [LitStatus; 6] = [
    LitStatus::Free,
    LitStatus::TrueBefore,
    LitStatus::FalseBefore,
    LitStatus::TrueAfter,
    LitStatus::FalseAfter,
    LitStatus::NegativeFree,
];

#[derive(Clone, Copy, Debug, PartialEq, Eq)]
pub enum Mode {
    Implied,
    Reified,
    Negation,
    /// reify the negation
    ReifiedNegation,
}

/// The inner constraints: every instance of the constraint alphabet over 2 or 3 integer
/// variables (the reification literal is appended as the last variable).
fn inner_models(tier: Tier) -> Vec<(Vec<VarDecl>, Con)> {
    let shapes: Vec<Vec<i32>> = if tier.quick() {
        vec![vec![0, 1, 2], vec![-1, 0, 2]]
    } else {
        vec![vec![0, 1, 2], vec![-1, 0, 2], vec![0, 1], vec![0, 2], vec![-1, 0, 1]]
    };
    let mut out = vec![];
    for a in &shapes {
        for b in &shapes {
            let vars2 = vec![VarDecl::from_values(a), VarDecl::from_values(b)];
            for c in gen::instances(&vars2, if tier.quick() { 0 } else { 1 }) {
                out.push((vars2.clone(), c));
            }
            for c3 in &shapes {
                let vars3 = vec![
                    VarDecl::from_values(a),
                    VarDecl::from_values(b),
                    VarDecl::from_values(c3),
                ];
                for c in gen::instances(&vars3, 0) {
                    // (the instances with a non-default propagation method are generated below
                    // from the default one)
                    if matches!(&c, Con::Cumulative { opts, .. } if *opts != CumOpts::default_opts()) {
                        continue;
                    }
                    if c.vars().len() == 3 {
                        if let Con::Cumulative { starts, durations, usages, cap, opts } = &c {
                            // every propagation method (and, in the thorough tier, every option)
                            for o in CumOpts::all() {
                                let same_rest = o.explanation == opts.explanation
                                    && o.holes == opts.holes
                                    && o.sequence == opts.sequence
                                    && o.incremental_backtracking == opts.incremental_backtracking;
                                if o != *opts && (same_rest || !tier.quick()) {
                                    out.push((
                                        vars3.clone(),
                                        Con::Cumulative {
                                            starts: starts.clone(),
                                            durations: durations.clone(),
                                            usages: usages.clone(),
                                            cap: *cap,
                                            opts: o,
                                        },
                                    ));
                                }
                            }
                        }
                        out.push((vars3.clone(), c));
                    }
                }
            }
        }
    }
    // Boolean linear constraints, clauses and conjunctions over literals (only the half-reified
    // form exists for the Boolean linear ones); weights of both signs
    let (p0, n0, p1, n1) = (Lit::p(0), Lit::n(0), Lit::p(1), Lit::n(1));
    let lits2 = vec![VarDecl::lit(), VarDecl::lit()];
    for c in [
        Con::BoolLinLe(vec![2, -3], vec![p0, p1], 0),
        Con::BoolLinLe(vec![-1, -2], vec![p0, p1], -2),
        Con::BoolLinLe(vec![3, -2], vec![p0, p1], 0),
        Con::BoolLinLe(vec![-3, 1], vec![p0, p1], -3),
        Con::BoolLinLe(vec![1, 2], vec![p0, n1], 1),
        Con::BoolLinLe(vec![1, 1], vec![p0, p1], 1),
        Con::BoolLinLe(vec![-2, 3], vec![n0, n1], 0),
        Con::LitClause(vec![p0, p1]),
        Con::LitClause(vec![n0, p1]),
        Con::LitConj(vec![p0, n1]),
    ] {
        out.push((lits2.clone(), c));
    }
    let lits3 = vec![VarDecl::lit(), VarDecl::lit(), VarDecl::interval(-1, 2)];
    for c in [
        Con::BoolLinEq(vec![1, 2], vec![p0, p1], 2),
        Con::BoolLinEq(vec![-1, 2], vec![p0, p1], 2),
        Con::BoolLinEq(vec![1, -1], vec![p0, n1], 2),
        Con::BoolLinLe(vec![2, -1], vec![p0, p1], 0),
    ] {
        out.push((lits3.clone(), c));
    }
    out
}

/// Reified constraints in which the reification literal itself occurs (as a 0-1 integer term or as
/// a Boolean of a Boolean linear constraint), in both polarities, next to a companion constraint
/// that causes conflicts; both posting orders.
pub fn self_referential_models() -> Vec<Model> {
    let v = View::id;
    let (x, w, r) = (0usize, 1usize, 2usize);
    let vars = vec![VarDecl::interval(0, 3), VarDecl::interval(0, 3), VarDecl::lit()];
    let inners: Vec<Con> = vec![
        Con::LinLe(vec![v(x), v(w), View::new(r, -1, 0)], 1),
        Con::LinLe(vec![v(x), v(w), v(r)], 3),
        Con::LinLe(vec![View::new(x, -1, 0), View::new(w, -1, 0), View::new(r, 2, 0)], -2),
        Con::LinEq(vec![v(x), View::new(w, -1, 0), v(r)], 1),
        Con::LinNe(vec![v(x), v(w), View::new(r, -2, 0)], 1),
        Con::BinLe(v(x), View::new(r, 2, 1)),
        Con::BoolLinLe(vec![2, 1], vec![Lit::n(r), Lit::p(r)], 1),
        Con::Max(vec![v(x), View::new(r, 3, 0)], v(w)),
    ];
    let companions: Vec<Con> = vec![
        Con::LinLe(vec![v(x), View::new(w, -1, 0)], 1),
        Con::BinNe(v(x), v(w)),
    ];
    let mut out = vec![];
    for inner in &inners {
        for lit in [Lit::p(r), Lit::n(r)] {
            for reified in [false, true] {
                if reified && !inner.negatable() {
                    continue;
                }
                let main = if reified {
                    Con::Reified(lit, Box::new(inner.clone()))
                } else {
                    Con::Implied(lit, Box::new(inner.clone()))
                };
                for comp in &companions {
                    out.push(Model::new(vars.clone(), vec![comp.clone(), main.clone()]));
                    out.push(Model::new(vars.clone(), vec![main.clone(), comp.clone()]));
                }
            }
        }
    }
    out
}

/// Every half-reified / reified cumulative case (all propagation methods) with a free reification
/// literal of either polarity, for the root-bound check C12.
pub fn reified_cumulative_models(tier: Tier) -> Vec<Model> {
    let mut out = vec![];
    for (vars, inner) in inner_models(tier) {
        if !matches!(inner, Con::Cumulative { .. }) {
            continue;
        }
        for status in [LitStatus::Free, LitStatus::NegativeFree] {
            if let Some(m) = build_case(&vars, &inner, Mode::Implied, status) {
                out.push(m);
            }
        }
    }
    // task sets with time-table pruning at the root (a mandatory part that another task cannot
    // overlap), under every propagation method
    let v = View::id;
    let sets: Vec<(Vec<VarDecl>, Vec<i32>, Vec<i32>, i32)> = vec![
        (vec![VarDecl::from_values(&[0]), VarDecl::interval(0, 6)], vec![4, 2], vec![1, 1], 1),
        (vec![VarDecl::interval(1, 2), VarDecl::interval(0, 5)], vec![3, 2], vec![1, 1], 1),
        (vec![VarDecl::interval(2, 3), VarDecl::interval(0, 6), VarDecl::interval(1, 5)], vec![3, 2, 1], vec![2, 1, 2], 2),
    ];
    for (vars, durations, usages, cap) in sets {
        for method in 0..6 {
            let opts = CumOpts { method, ..CumOpts::default_opts() };
            let inner = Con::Cumulative {
                starts: (0..vars.len()).map(v).collect(),
                durations: durations.clone(),
                usages: usages.clone(),
                cap,
                opts,
            };
            for status in [LitStatus::Free, LitStatus::NegativeFree] {
                if let Some(m) = build_case(&vars, &inner, Mode::Implied, status) {
                    out.push(m);
                }
            }
        }
    }
    out
}

/// A stride of the reified / half-reified cases with a free reification literal (positive and
/// negative polarity, reified negation), for the explanation check C17.
pub fn reified_models(tier: Tier) -> Vec<Model> {
    let stride = if tier.quick() { 23 } else { 5 };
    let linear_stride = 1;
    let mut out = vec![];
    let mut k = 0usize;
    for (vars, inner) in inner_models(tier) {
        for mode in [Mode::Implied, Mode::Reified, Mode::ReifiedNegation] {
            for status in [LitStatus::Free, LitStatus::NegativeFree] {
                k += 1;
                // the wrapped linear propagator is the one that reports inconsistencies to the
                // reification wrapper (which caches them): these cases are taken more densely
                let linear = matches!(inner, Con::LinLe(..) | Con::LinEq(..) | Con::BinLe(..) | Con::BinLt(..) | Con::BinEq(..) | Con::BoolLinLe(..) | Con::BoolLinEq(..) | Con::LitClause(..) | Con::LitConj(..));
                if k % (if linear { linear_stride } else { stride }) != 0 {
                    continue;
                }
                if let Some(m) = build_case(&vars, &inner, mode, status) {
                    out.push(m);
                }
            }
        }
    }
    out
}

fn build_case(vars: &[VarDecl], inner: &Con, mode: Mode, status: LitStatus) -> Option<Model> {
    if matches!(inner, Con::PredClause(..) | Con::ViewClause(..)) {
        return None; // Solver::add_clause has no reified form
    }
    let mut vs = vars.to_vec();
    let r = vs.len();
    vs.push(VarDecl::lit());
    let lit = match status {
        LitStatus::NegativeFree => Lit::n(r),
        _ => Lit::p(r),
    };
    let main = match mode {
        Mode::Implied => Con::Implied(lit, Box::new(inner.clone())),
        Mode::Reified => {
            if !inner.negatable() {
                return None;
            }
            Con::Reified(lit, Box::new(inner.clone()))
        }
        Mode::Negation => {
            if !inner.negatable() || status != LitStatus::Free {
                return None;
            }
            Con::Neg(Box::new(inner.clone()))
        }
        Mode::ReifiedNegation => {
            if !inner.negatable() {
                return None;
            }
            Con::Reified(lit, Box::new(Con::Neg(Box::new(inner.clone()))))
        }
    };
    let fix_true = Con::LitClause(vec![Lit::p(r)]);
    let fix_false = Con::LitClause(vec![Lit::n(r)]);
    let cons = match status {
        LitStatus::Free | LitStatus::NegativeFree => vec![main],
        LitStatus::TrueBefore => vec![fix_true, main],
        LitStatus::FalseBefore => vec![fix_false, main],
        LitStatus::TrueAfter => vec![main, fix_true],
        LitStatus::FalseAfter => vec![main, fix_false],
    };
    Some(Model::new(vs, cons))
}

/// Orders in which the variables get fixed: InputOrder over permutations (the reification
/// literal first / last / in between) with min and max value selection.
pub fn orders(n: usize) -> Vec<(Vec<usize>, usize)> {
    let r = n - 1;
    let others: Vec<usize> = (0..r).collect();
    let mut perms: Vec<Vec<usize>> = vec![];
    // r first
    let mut p = vec![r];
    p.extend(others.iter());
    perms.push(p);
    // r last
    let mut p: Vec<usize> = others.clone();
    p.push(r);
    perms.push(p);
    // r second
    if r >= 2 {
        let mut p: Vec<usize> = vec![others[0], r];
        p.extend(others[1..].iter());
        perms.push(p);
        // reversed others, r last
        let mut p: Vec<usize> = others.iter().rev().copied().collect();
        p.push(r);
        perms.push(p);
    }
    let mut out = vec![];
    for p in perms {
        out.push((p.clone(), 0)); // InDomainMin
        out.push((p, 1)); // InDomainMax
    }
    out
}

impl Property for C09 {
    fn id(&self) -> &'static str {
        "C09"
    }
    fn level(&self) -> &'static str {
        "exploration"
    }
    fn rule(&self, tier: Tier) -> String {
        format!(
            "Every instance of the constraint alphabet over 2-3 variables ({} inner constraints) x mode {{implied_by, reify, negation().post, negation().reify}} x status of the reification literal {{free, true before, false before, true after, false after, negative literal}} x fixing orders (InputOrder over permutations placing the literal first/last/in between, with min and max value selection; plus the scripted brancher with <=1 deviation for a stride); plus a family in which the reification literal itself occurs in the reified constraint (both polarities, both posting orders, with a conflicting companion constraint); the complete solution set over (variables, literal) must equal {{r -> c}}, {{r <-> c}} or the complement. A case = (inner constraint, mode, status, order); non-trivial = the reference set is neither empty nor everything. The explanation tap is on: every reason is also checked against the reified reference constraint.",
            inner_models(tier).len()
        )
    }
    fn assumptions(&self) -> Vec<String> {
        vec!["only constraints for which the library implements NegatableConstraint are negated / fully reified".into()]
    }
    fn extra(&self, _tier: Tier) -> Value {
        json!({})
    }
    fn run(&self, ctl: &mut Ctl) {
        let tier = ctl.tier;
        let inner = inner_models(tier);
        let cfg = Cfg::default_cfg();
        let mut idx = 0u64;
        for (vars, c) in &inner {
            for mode in [Mode::Implied, Mode::Reified, Mode::Negation, Mode::ReifiedNegation] {
                for status in STATUSES {
                    let Some(model) = build_case(vars, c, mode, status) else { continue };
                    let ords = orders(model.vars.len());
                    let mut sols: Option<Vec<Vec<i32>>> = None;
                    for (oi, (perm, valsel)) in ords.iter().enumerate() {
                        let my = idx;
                        idx += 1;
                        if !ctl.want(my) {
                            continue;
                        }
                        let sols = sols.get_or_insert_with(|| model.solutions());
                        let desc = || format!("{} || {:?} {:?} || order {:?} val {}", model.describe(), mode, status, perm, valsel);
                        ctl.case(my, &desc, &mut |cx| {
                            cx.nontrivial = gen::nontrivial(&model, sols.len());
                            run_order(&model, sols, &cfg, perm, *valsel, cx);
                            // scripted exploration on a stride
                            if oi == 0 && my % 7 == 0 {
                                c17::explore(
                                    &model,
                                    &cfg,
                                    &c17::Bounds { deviations: 1, depth: 3 },
                                    cx,
                                    sols.len(),
                                );
                            }
                        });
                    }
                }
            }
        }
        // the reification literal occurring inside the reified constraint
        for model in self_referential_models() {
            let mut sols: Option<Vec<Vec<i32>>> = None;
            for (perm, valsel) in orders(model.vars.len()) {
                let my = idx;
                idx += 1;
                if !ctl.want(my) {
                    continue;
                }
                let sols = sols.get_or_insert_with(|| model.solutions());
                let desc = || format!("{} || self-referential || order {:?} val {}", model.describe(), perm, valsel);
                ctl.case(my, &desc, &mut |cx| {
                    cx.nontrivial = gen::nontrivial(&model, sols.len());
                    run_order(&model, sols, &cfg, &perm, valsel, cx);
                    if valsel == 0 {
                        c17::explore(&model, &cfg, &c17::Bounds { deviations: 1, depth: 4 }, cx, sols.len());
                    }
                });
            }
        }
    }
}

fn inner_kind(c: &Con) -> String {
    match c {
        Con::Implied(_, c) | Con::Reified(_, c) | Con::Neg(c) => inner_kind(c),
        Con::Cumulative { opts, .. } => format!("cumulative-method{}", opts.method),
        other => other.kind_name().to_string(),
    }
}

pub fn run_order(model: &Model, sols: &[Vec<i32>], cfg: &Cfg, perm: &[usize], valsel: usize, cx: &mut CaseCtx) {
    verif_tap::configure(Default::default());
    let main = model
        .cons
        .iter()
        .find(|c| !matches!(c, Con::LitClause(..)))
        .unwrap_or(&model.cons[0]);
    cx.sig_suffix = inner_kind(main);
    let mut b = match guard(|| build(model, cfg)) {
        Ok(b) => b,
        Err(e) => {
            cx.violation(format!("{}:post", panic_sig(&e)), format!("panic while posting: {e}"));
            return;
        }
    };
    if let Some(k) = b.first_error() {
        cx.acc.outcome("post-error");
        let psols = Model::new(model.vars.clone(), model.cons[..=k].to_vec()).solutions();
        if let Some(w) = psols.first() {
            cx.violation(
                "spurious-post-error",
                format!("posting constraint #{k} `{}` failed but {w:?} satisfies everything posted so far", model.cons[k]),
            );
        }
        return;
    }
    let ids = b.ids.clone();
    let ordered: Vec<_> = perm.iter().map(|i| ids[*i]).collect();
    let mut brancher = indep(0, valsel, &ordered, cfg.seed);
    let it = Iterate {
        ids: &ids,
        term: &mut Indefinite,
        cap: sols.len() + 2,
        stop_after: None,
        on_solution: &mut |_, _| {},
    };
    let (mut got, end) = it.call(&mut b.solver, &mut brancher);
    match end {
        IterEnd::Finished | IterEnd::Unsat => {
            cx.acc.outcome(if got.is_empty() { "unsat" } else { "solutions" });
            let n = got.len();
            got.sort();
            got.dedup();
            if n != got.len() {
                cx.violation("repeated-solution", "a solution was produced twice");
            }
            if let Some(bad) = got.iter().find(|g| !sols.contains(g)) {
                cx.violation(
                    "reification-admits-non-solution",
                    format!("{bad:?} was produced but violates the reified semantics"),
                );
            }
            if let Some(miss) = sols.iter().find(|s| !got.contains(s)) {
                cx.violation(
                    "reification-loses-solution",
                    format!("{miss:?} satisfies the reified semantics but was never produced ({} of {})", got.len(), sols.len()),
                );
            }
        }
        IterEnd::Panic(e) => cx.violation(format!("{}:iterate", panic_sig(&e)), format!("panic: {e}")),
        other => cx.violation("iteration-inconclusive", format!("{other:?}")),
    }
}
