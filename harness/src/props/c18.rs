//! C18: built-in branchers propose only undecided decisions over their own variables and
//! propose nothing only when all of their variables are fixed.
use pumpkin_solver::termination::Indefinite;
use pumpkin_solver::verif_tap;
use pumpkin_solver::verif_tap::Event;
use serde_json::json;
use serde_json::Value;

use crate::drive::*;
use crate::gen;
use crate::orch::*;
use crate::refmodel::*;
use crate::solve::*;

pub struct C18;

fn models(tier: Tier) -> Vec<Model> {
    let mut v = vec![];
    match tier {
        Tier::Quick => {
            v.extend(gen::m1(0).into_iter().step_by(61));
            v.extend(gen::m3(0).into_iter().step_by(211));
            v.extend(gen::m4(0).into_iter().step_by(97));
            v.extend(gen::m5(0).into_iter().step_by(53));
            v.extend(gen::m8(0).into_iter().step_by(7));
        }
        Tier::Thorough => {
            v.extend(gen::m1(1).into_iter().step_by(17));
            v.extend(gen::m2(1).into_iter().step_by(997));
            v.extend(gen::m3(1).into_iter().step_by(31));
            v.extend(gen::m4(1).into_iter().step_by(13));
            v.extend(gen::m5(1).into_iter().step_by(5));
            v.extend(gen::m8(1).into_iter().step_by(1));
        }
    }
    // conflict-rich models with bystanders: unconstrained variables never appear in a conflict, so
    // only a brancher's own bookkeeping (e.g. the default brancher's backup selector) can make it
    // come back to them after backtracks, restarts and brancher switches
    let rich: Vec<Model> = match tier {
        Tier::Quick => gen::m3(0).into_iter().step_by(113).chain(gen::m5(0).into_iter().rev().step_by(401)).collect(),
        Tier::Thorough => gen::m3(1).into_iter().step_by(211).chain(gen::m5(1).into_iter().rev().step_by(499)).collect(),
    };
    for m in rich {
        let mut vars = m.vars.clone();
        vars.push(VarDecl::interval(0, 2));
        vars.push(VarDecl::from_values(&[-1, 1]));
        v.push(Model::new(vars, m.cons.clone()));
    }
    // models whose only purpose is domain shapes: no constraint at all over awkward domains
    for shape in [vec![0, 1], vec![-1, 1], vec![-3, -1, 2, 3], vec![0, 2], vec![-2, -1]] {
        let d = VarDecl::from_values(&shape);
        v.push(Model::new(
            vec![d.clone(), VarDecl::from_values(&[-1, 0, 2]), d],
            vec![Con::BinNe(View::id(0), View::id(2))],
        ));
    }
    v
}

fn branchers() -> Vec<BrancherSpec> {
    let mut v = BrancherSpec::all_indep();
    v.push(BrancherSpec::Default);
    v.push(BrancherSpec::DynamicSplit(0, 0));
    v.push(BrancherSpec::DynamicSplit(9, 13));
    v.push(BrancherSpec::DynamicSplit(5, 2));
    // every variable selector (and every value selector) once inside a DynamicBrancher, which
    // forwards events only to the branchers that subscribed to them
    for i in 0..14 {
        v.push(BrancherSpec::DynamicSplit(i, (i * 5 + 3) % 14));
    }
    for s in 0..4 {
        v.push(BrancherSpec::Alternating(s, 1, 4));
        v.push(BrancherSpec::Alternating(s, 9, 7));
    }
    // switching on restarts meets the most brancher state (mid-tree switches): more partners
    for (a, b) in [(0, 0), (2, 11), (13, 1), (6, 5), (3, 8)] {
        v.push(BrancherSpec::Alternating(3, a, b));
    }
    v
}

fn cfgs() -> Vec<Cfg> {
    vec![
        Cfg::default_cfg(),
        Cfg {
            uip: true,
            minimise: true,
            restart: RestartCfg::Luby1,
            learn: LearnCfg::L1Act,
            seed: 1,
        },
        Cfg {
            uip: true,
            minimise: false,
            restart: RestartCfg::Constant1,
            learn: LearnCfg::Default,
            seed: 0,
        },
    ]
}

impl Property for C18 {
    fn id(&self) -> &'static str {
        "C18"
    }
    fn level(&self) -> &'static str {
        "exploration"
    }
    fn rule(&self, _tier: Tier) -> String {
        format!(
            "All {} x {} variable/value selector pairs constructible through the public API (incl. random tie breakers), the default brancher, DynamicBrancher and AlternatingBrancher (4 strategies), {} branchers in total, x {} solver configurations (default, and two with restarts forced after every/few conflicts) x models over all domain shapes (holes, negatives, size 2, singletons) incl. conflict-rich models extended by unconstrained bystander variables; each run is a complete solution iteration so the brancher is driven through backtracks and restarts; observed at the engine (tap after Brancher::next_decision): every proposed predicate is over one of the brancher's variables and is neither true nor false; nothing is proposed only when none of its variables is unfixed; the run terminates and every solution fixes all variables. A case = (model, brancher, configuration).",
            NUM_VAR_SELECTORS,
            NUM_VAL_SELECTORS,
            branchers().len(),
            cfgs().len()
        )
    }
    fn assumptions(&self) -> Vec<String> {
        vec![
            "MostConstrained cannot be constructed through the public API (its constructor returns a type with a private parameter; the FlatZinc front end has todo!() for it) and is therefore not covered".into(),
            "decisions are observed in the engine (cfg(pumpkin_verif) tap) because an external wrapping brancher cannot forward Brancher::synchronise".into(),
        ]
    }
    fn extra(&self, tier: Tier) -> Value {
        json!({"models": models(tier).len(), "branchers": branchers().len()})
    }
    fn run(&self, ctl: &mut Ctl) {
        let tier = ctl.tier;
        let ms = models(tier);
        let brs = branchers();
        let cfgs = cfgs();
        let mut idx = 0u64;
        for model in &ms {
            let mut sols: Option<Vec<Vec<i32>>> = None;
            for br in &brs {
                for cfg in &cfgs {
                    let my = idx;
                    idx += 1;
                    if !ctl.want(my) {
                        continue;
                    }
                    let sols = sols.get_or_insert_with(|| model.solutions());
                    let desc = || format!("{} || {} || {}", model.describe(), br.describe(), cfg.describe());
                    ctl.case(my, &desc, &mut |cx| run_one(model, sols, cfg, br, cx));
                }
            }
        }
    }
}

fn run_one(model: &Model, sols: &[Vec<i32>], cfg: &Cfg, br: &BrancherSpec, cx: &mut CaseCtx) {
    cx.nontrivial = gen::nontrivial(model, sols.len());
    cx.sig_suffix = br.describe();
    verif_tap::configure(verif_tap::TapConfig {
        decisions: true,
        ..Default::default()
    });
    let Ok(mut b) = guard(|| build(model, cfg)) else {
        return;
    };
    if b.first_error().is_some() {
        cx.acc.outcome("post-error");
        return;
    }
    let ids = b.ids.clone();
    let (got, end) = with_brancher(
        br,
        &mut b.solver,
        &ids,
        cfg.seed,
        Iterate {
            ids: &ids,
            term: &mut Indefinite,
            cap: sols.len() + 2,
            stop_after: None,
            on_solution: &mut |_, _| {},
        },
    );
    let c = verif_tap::counters();
    cx.acc.count("restarts", c.restarts);
    cx.acc.count("conflicts", c.conflicts);
    let is_default = matches!(br, BrancherSpec::Default | BrancherSpec::Alternating(..));
    for ev in verif_tap::drain() {
        match ev {
            Event::Decision { predicate, truth, .. } => {
                cx.acc.count("decisions_observed", 1);
                let dom = predicate.get_domain();
                let own = ids.contains(&dom) || (is_default && dom.id == 0);
                if !own {
                    cx.violation(
                        "decision-over-foreign-variable",
                        format!("proposed {predicate:?} which is not over one of the brancher's variables"),
                    );
                }
                if let Some(t) = truth {
                    cx.violation(
                        "decision-already-decided",
                        format!("proposed {predicate:?} which is already {t}"),
                    );
                }
            }
            Event::NoDecision { unfixed } => {
                cx.acc.count("no_decision_observed", 1);
                if let Some(u) = unfixed.iter().find(|u| ids.contains(u)) {
                    cx.violation(
                        "no-decision-with-unfixed-variable",
                        format!("proposed nothing although variable {u:?} of the brancher is not fixed"),
                    );
                }
            }
            _ => {}
        }
    }
    match end {
        IterEnd::Finished | IterEnd::Unsat => {
            cx.acc.outcome("terminated");
            if got.len() != sols.len() {
                cx.violation(
                    "solution-count-differs",
                    format!("iteration produced {} solutions, reference has {}", got.len(), sols.len()),
                );
            }
        }
        IterEnd::Broken(e) => cx.violation("unfixed-variable-in-solution", e),
        IterEnd::Panic(e) => cx.violation(format!("{}:iterate", panic_sig(&e)), format!("panic: {e}")),
        other => cx.violation("iteration-inconclusive", format!("{other:?}")),
    }
}
