//! Simplest-first enumerators for domains, constraint instances and models.
use std::collections::HashSet;

use crate::refmodel::*;

/// Domain shapes (sorted value lists). Order = simplest first.
pub fn domain_shapes(full: bool) -> Vec<Vec<i32>> {
    let mut v = vec![
        vec![0, 1],
        vec![0, 1, 2],
        vec![-1, 0, 1],
        vec![0, 2],
        vec![-1, 0, 2],
    ];
    if full {
        v.extend([
            vec![1],
            vec![-2, -1, 0],
            vec![0, 1, 2, 3],
            vec![-3, -1, 2, 3],
        ]);
    }
    v
}

pub fn views_of(var: usize, full: bool) -> Vec<View> {
    let mut v = vec![View::id(var), View::new(var, -1, 0), View::new(var, 2, 0)];
    if full {
        v.extend([
            View::new(var, 1, 1),
            View::new(var, -2, -1),
            View::new(var, 3, 2),
        ]);
    }
    v
}

fn view_range(v: &View, d: &VarDecl) -> (i64, i64) {
    let a = v.a as i64 * d.lb() as i64 + v.b as i64;
    let b = v.a as i64 * d.ub() as i64 + v.b as i64;
    (a.min(b), a.max(b))
}

fn sum_range(terms: &[View], vars: &[VarDecl]) -> (i64, i64) {
    let mut lo = 0;
    let mut hi = 0;
    for t in terms {
        let (a, b) = view_range(t, &vars[t.var]);
        lo += a;
        hi += b;
    }
    (lo, hi)
}

/// Right-hand sides covering trivially-false, boundary, interior and trivially-true cases.
fn rhs_values(lo: i64, hi: i64) -> Vec<i32> {
    let mut v: Vec<i64> = if hi - lo <= 5 {
        (lo - 1..=hi + 1).collect()
    } else {
        vec![lo - 1, lo, lo + 1, (lo + hi) / 2, hi - 1, hi, hi + 1]
    };
    v.sort();
    v.dedup();
    v.into_iter().map(|x| x as i32).collect()
}

/// Predicates over variable `var` with values around its domain.
pub fn preds_of(var: usize, d: &VarDecl) -> Vec<Pred> {
    let mut vals: Vec<i32> = d.values.clone();
    vals.push(d.lb() - 1);
    vals.push(d.ub() + 1);
    // one hole, if any
    for v in d.lb()..=d.ub() {
        if !d.values.contains(&v) {
            vals.push(v);
            break;
        }
    }
    vals.sort();
    vals.dedup();
    let mut out = vec![];
    for kind in [PredKind::Ge, PredKind::Le, PredKind::Eq, PredKind::Ne] {
        for &v in &vals {
            out.push(Pred::new(var, kind, v));
        }
    }
    out
}

/// Non-trivial predicates only (neither always true nor always false on the domain).
pub fn nontrivial_preds_of(var: usize, d: &VarDecl) -> Vec<Pred> {
    preds_of(var, d)
        .into_iter()
        .filter(|p| {
            let t = d.values.iter().filter(|v| p.holds_val(**v)).count();
            t > 0 && t < d.values.len()
        })
        .collect()
}

/// Which integer (non-literal) variables exist, by index.
fn int_vars(vars: &[VarDecl]) -> Vec<usize> {
    (0..vars.len())
        .filter(|i| vars[*i].kind != VarKind::Lit)
        .collect()
}

fn lit_vars(vars: &[VarDecl]) -> Vec<usize> {
    (0..vars.len())
        .filter(|i| vars[*i].kind == VarKind::Lit)
        .collect()
}

/// All single-constraint instances over the given variables (the alphabet `K`).
/// `level`: 0 = small (quick), 1 = full.
pub fn instances(vars: &[VarDecl], level: u8) -> Vec<Con> {
    let full = level >= 1;
    let iv = int_vars(vars);
    let lv = lit_vars(vars);
    let mut out: Vec<Con> = vec![];

    // ---- linear constraints ----
    let mut term_lists: Vec<Vec<View>> = vec![];
    if iv.len() >= 1 {
        let x = iv[0];
        term_lists.push(vec![View::id(x)]);
        term_lists.push(vec![View::new(x, -2, 0)]);
        term_lists.push(vec![View::id(x), View::new(x, -1, 0)]); // x - x
        if full {
            term_lists.push(vec![View::new(x, 3, 2)]);
        }
    }
    if iv.len() >= 2 {
        let (x, y) = (iv[0], iv[1]);
        term_lists.push(vec![View::id(x), View::id(y)]);
        term_lists.push(vec![View::id(x), View::new(y, -1, 0)]);
        term_lists.push(vec![View::new(x, 2, 0), View::new(y, -1, 0)]);
        if full {
            term_lists.push(vec![View::new(x, -2, -1), View::new(y, 1, 1)]);
            term_lists.push(vec![View::new(x, -1, 0), View::new(y, -1, 0)]);
        }
    }
    if iv.len() >= 3 {
        let (x, y, z) = (iv[0], iv[1], iv[2]);
        term_lists.push(vec![View::id(x), View::id(y), View::id(z)]);
        term_lists.push(vec![View::id(x), View::new(y, -1, 0), View::new(z, 2, 0)]);
        if full {
            term_lists.push(vec![View::new(x, -1, 0), View::new(y, 2, 0), View::new(z, -1, 1)]);
            term_lists.push(vec![View::id(x), View::id(y), View::new(x, 1, 0), View::id(z)]);
        }
    }
    for t in &term_lists {
        let (lo, hi) = sum_range(t, vars);
        for r in rhs_values(lo, hi) {
            out.push(Con::LinLe(t.clone(), r));
            out.push(Con::LinEq(t.clone(), r));
            out.push(Con::LinNe(t.clone(), r));
        }
    }

    // ---- binary relations ----
    if iv.len() >= 2 {
        let (x, y) = (iv[0], iv[1]);
        let mut pairs = vec![(View::id(x), View::id(y))];
        pairs.push((View::new(x, -1, 0), View::id(y)));
        if full {
            pairs.push((View::id(x), View::new(y, 1, 1)));
            pairs.push((View::new(x, 2, 0), View::new(y, -1, 1)));
        }
        out.push(Con::BinNe(View::new(x, 2, 0), View::id(y)));
        out.push(Con::BinEq(View::new(x, 2, 0), View::new(y, 1, 1)));
        out.push(Con::BinNe(View::new(x, -2, 1), View::new(y, 3, 0)));
        for (a, b) in pairs {
            out.push(Con::BinEq(a, b));
            out.push(Con::BinNe(a, b));
            out.push(Con::BinLe(a, b));
            out.push(Con::BinLt(a, b));
        }
        // abs
        out.push(Con::Abs(View::id(x), View::id(y)));
        out.push(Con::Abs(View::new(x, -1, 0), View::id(y)));
        out.push(Con::Abs(View::new(x, -2, 1), View::id(y)));
        out.push(Con::Abs(View::id(x), View::new(y, -2, 3)));
        out.push(Con::Max(vec![View::id(x)], View::new(y, -2, 0)));
        out.push(Con::Min(vec![View::new(x, -3, 0)], View::new(y, 1, -1)));
        if full {
            out.push(Con::Abs(View::new(x, 2, -1), View::new(y, 1, 1)));
            out.push(Con::Abs(View::id(x), View::new(y, -1, 0)));
        }
        out.push(Con::Max(vec![View::id(x)], View::id(y)));
        out.push(Con::Min(vec![View::id(x), View::id(x)], View::id(y)));
        out.push(Con::AllDiff(vec![View::id(x), View::id(y)]));
    }

    // ---- ternary arithmetic ----
    if iv.len() >= 3 {
        let (x, y, z) = (iv[0], iv[1], iv[2]);
        out.push(Con::Plus(View::id(x), View::id(y), View::id(z)));
        out.push(Con::Plus(View::new(x, -1, 0), View::new(y, 2, 0), View::new(z, 1, 1)));
        out.push(Con::Times(View::id(x), View::id(y), View::id(z)));
        out.push(Con::Times(View::new(x, -1, 0), View::id(y), View::id(z)));
        if full {
            out.push(Con::Times(View::id(x), View::new(y, -1, 1), View::new(z, 2, 0)));
            out.push(Con::Times(View::new(x, 1, -1), View::new(y, 1, -1), View::new(z, -1, 0)));
            out.push(Con::Times(View::id(x), View::id(x), View::id(z)));
        }
        // division: denominator must not contain 0 (documented precondition)
        let den_views = [View::id(y), View::new(y, 2, 1), View::new(y, -1, -1), View::new(y, 1, -1)];
        for dv in den_views {
            let zero_free = vars[y].values.iter().all(|v| dv.a * v + dv.b != 0);
            if zero_free {
                out.push(Con::Div(View::id(x), dv, View::id(z)));
                out.push(Con::Div(View::new(x, -1, 0), dv, View::id(z)));
                if full {
                    out.push(Con::Div(View::new(x, 2, 1), dv, View::new(z, -1, 0)));
                    out.push(Con::Div(View::new(x, 3, 0), dv, View::id(z)));
                }
            }
        }
        out.push(Con::Max(vec![View::id(x), View::id(y)], View::id(z)));
        out.push(Con::Min(vec![View::id(x), View::id(y)], View::id(z)));
        // views with scale <= -2 (and odd offsets) in propagators that set both kinds of bounds on
        // their arguments: bounds have to be rounded in the right direction when mapped back
        out.push(Con::Max(vec![View::id(x), View::id(y)], View::new(z, -2, -1)));
        out.push(Con::Min(vec![View::id(x), View::new(y, -2, 0)], View::id(z)));
        out.push(Con::Min(vec![View::new(x, -3, 1), View::id(y)], View::new(z, 2, 0)));
        out.push(Con::Times(View::id(x), View::id(y), View::new(z, -2, 0)));
        out.push(Con::Times(View::new(x, -2, 1), View::id(y), View::id(z)));
        out.push(Con::Element {
            index: View::id(x),
            array: vec![View::id(y), View::new(y, -2, -1)],
            rhs: View::new(z, -2, 1),
        });
        out.push(Con::Max(vec![View::new(x, -1, 0), View::id(y)], View::new(z, 1, 1)));
        out.push(Con::Min(vec![View::id(x), View::new(y, 2, 0)], View::new(z, -1, 0)));
        out.push(Con::AllDiff(vec![View::id(x), View::id(y), View::id(z)]));
        out.push(Con::AllDiff(vec![View::id(x), View::new(y, 1, 1), View::new(z, -1, 0)]));
        // scaled views meeting values that are not multiples of the scale (removals and
        // (dis)equality predicates that are trivially true / false on the view)
        out.push(Con::AllDiff(vec![View::new(x, 2, 0), View::id(y), View::new(z, -2, 1)]));
        out.push(Con::LinNe(vec![View::new(x, 2, 0), View::id(y), View::id(z)], 1));
        out.push(Con::LinNe(vec![View::new(x, 2, 0), View::new(y, -2, 0), View::id(z)], 2));
        out.push(Con::LinEq(vec![View::new(x, 2, 1), View::new(y, 3, 0), View::new(z, -2, 0)], 2));
        out.push(Con::Element {
            index: View::id(x),
            array: vec![View::new(y, 2, 0), View::new(z, 3, 1)],
            rhs: View::new(z, 2, 1),
        });
        // element: array[index] == rhs, 0-based
        out.push(Con::Element {
            index: View::id(x),
            array: vec![View::id(y), View::id(z)],
            rhs: View::id(z),
        });
        out.push(Con::Element {
            index: View::id(x),
            array: vec![View::id(y), View::new(y, -1, 0), View::new(y, 1, 1)],
            rhs: View::id(z),
        });
        out.push(Con::Element {
            index: View::new(x, 1, 1),
            array: vec![View::id(y), View::id(z)],
            rhs: View::id(y),
        });
        if full {
            out.push(Con::Element {
                index: View::new(x, -1, 1),
                array: vec![View::id(z), View::id(y), View::new(z, 2, 0)],
                rhs: View::new(y, 1, 1),
            });
            out.push(Con::Element {
                index: View::id(x),
                array: vec![View::id(x), View::id(y), View::id(z)],
                rhs: View::id(y),
            });
        }
        // cumulative over the three variables as start times
        for (d, u, cap) in [
            (vec![1, 1, 1], vec![1, 1, 1], 1),
            (vec![2, 1, 2], vec![1, 2, 1], 2),
            (vec![2, 0, 1], vec![2, 1, 0], 2),
            // a zero-duration task with the largest resource usage
            (vec![0, 2, 2], vec![2, 1, 2], 2),
        ] {
            // (the second task set also under the five non-default propagation methods)
            if d == vec![2, 1, 2] {
                for method in 0..6u8 {
                    let opts = CumOpts { method, ..CumOpts::default_opts() };
                    if opts != CumOpts::default_opts() {
                        out.push(Con::Cumulative {
                            starts: vec![View::id(x), View::id(y), View::id(z)],
                            durations: d.clone(),
                            usages: u.clone(),
                            cap,
                            opts,
                        });
                    }
                }
            }
            out.push(Con::Cumulative {
                starts: vec![View::id(x), View::id(y), View::id(z)],
                durations: d,
                usages: u,
                cap,
                opts: CumOpts::default_opts(),
            });
        }
    }

    // ---- clauses over predicates ----
    if iv.len() >= 2 {
        let (x, y) = (iv[0], iv[1]);
        let px = nontrivial_preds_of(x, &vars[x]);
        let py = nontrivial_preds_of(y, &vars[y]);
        let take = if full { 6 } else { 3 };
        for (i, p) in px.iter().enumerate().filter(|(i, _)| i % 2 == 0).take(take) {
            for q in py.iter().skip(i % 2).step_by(2).take(take) {
                out.push(Con::PredClause(vec![*p, *q]));
            }
        }
        if let (Some(p), Some(q)) = (px.first(), py.last()) {
            out.push(Con::PredClause(vec![*p]));
            out.push(Con::PredClause(vec![*p, p.negate()]));
            out.push(Con::PredClause(vec![*q, *q, *p]));
        }
    }

    // ---- literal based ----
    if lv.len() >= 2 {
        let (a, b) = (lv[0], lv[1]);
        out.push(Con::LitClause(vec![Lit::p(a), Lit::p(b)]));
        out.push(Con::LitClause(vec![Lit::n(a), Lit::p(b)]));
        out.push(Con::LitClause(vec![Lit::n(a)]));
        out.push(Con::LitConj(vec![Lit::p(a), Lit::n(b)]));
        out.push(Con::Neg(Box::new(Con::LitClause(vec![Lit::p(a), Lit::n(b)]))));
        out.push(Con::Neg(Box::new(Con::LitConj(vec![Lit::p(a), Lit::p(b)]))));
        for r in [-1, 0, 1, 2, 3] {
            out.push(Con::BoolLinLe(vec![1, 2], vec![Lit::p(a), Lit::p(b)], r));
            out.push(Con::BoolLinLe(vec![-1, 2], vec![Lit::n(a), Lit::p(b)], r));
        }
        if let Some(&x) = iv.first() {
            out.push(Con::BoolLinEq(vec![1, 1], vec![Lit::p(a), Lit::p(b)], x));
            out.push(Con::BoolLinEq(vec![2, -1], vec![Lit::p(a), Lit::n(b)], x));
            // reification of constraints over x by literal a (and b)
            let inner = [
                Con::LinLe(vec![View::id(x)], vars[x].lb()),
                Con::LinNe(vec![View::new(x, 2, 0)], 2 * vars[x].ub()),
                Con::LinEq(vec![View::id(x)], vars[x].values[vars[x].values.len() / 2]),
                Con::Abs(View::id(x), View::id(b)),
            ];
            for c in inner {
                out.push(Con::Implied(Lit::p(a), Box::new(c.clone())));
                out.push(Con::Implied(Lit::n(a), Box::new(c.clone())));
                if c.negatable() {
                    out.push(Con::Reified(Lit::p(a), Box::new(c.clone())));
                    out.push(Con::Neg(Box::new(c.clone())));
                    out.push(Con::Reified(Lit::n(b), Box::new(Con::Neg(Box::new(c.clone())))));
                }
            }
        }
    }

    // dedup, preserving order
    let mut seen = HashSet::new();
    out.retain(|c| seen.insert(c.clone()));
    out
}

fn decls(shapes: &[&Vec<i32>]) -> Vec<VarDecl> {
    shapes.iter().map(|s| VarDecl::from_values(s)).collect()
}

/// Variable layouts: all-integer layouts (1..=3 vars) over the shapes, plus layouts with literals.
pub fn layouts(level: u8) -> Vec<Vec<VarDecl>> {
    let shapes = domain_shapes(level >= 1);
    let mut out = vec![];
    // 2 and 3 integer variables, all combinations of shapes
    for a in &shapes {
        for b in &shapes {
            out.push(decls(&[a, b]));
        }
    }
    for a in &shapes {
        for b in &shapes {
            for c in &shapes {
                out.push(decls(&[a, b, c]));
            }
        }
    }
    // literal layouts: two literals + one integer
    for a in &shapes {
        out.push(vec![VarDecl::lit(), VarDecl::lit(), VarDecl::from_values(a)]);
    }
    out
}

/// M1: one constraint over <= 3 variables, all layouts.
/// 2-variable layouts only carry the constraints that use <= 2 variables; 3-variable layouts only
/// those that use all three (so that models are distinct).
pub fn m1(level: u8) -> Vec<Model> {
    let mut out = vec![];
    for vars in layouts(level) {
        for con in instances(&vars, level) {
            let used = con.vars();
            let n_int = vars.iter().filter(|v| v.kind != VarKind::Lit).count();
            let has_lit = vars.iter().any(|v| v.kind == VarKind::Lit);
            if !has_lit && n_int == 3 && used.len() < 3 {
                continue; // already covered by the 2-variable layout
            }
            out.push(Model::new(vars.clone(), vec![con]));
        }
    }
    out
}

/// M2: two constraints over three integer variables (reduced shapes and instances).
pub fn m2(level: u8) -> Vec<Model> {
    let shapes: Vec<Vec<i32>> = if level >= 1 {
        vec![vec![0, 1, 2], vec![-1, 0, 2], vec![0, 2], vec![-1, 0, 1]]
    } else {
        vec![vec![0, 1, 2], vec![-1, 0, 2]]
    };
    let mut out = vec![];
    for a in &shapes {
        for b in &shapes {
            for c in &shapes {
                let vars = decls(&[a, b, c]);
                let inst: Vec<Con> = instances(&vars, 0)
                    .into_iter()
                    .filter(|c| reduced_kind(c))
                    .collect();
                let step = if level >= 1 { 1 } else { 3 };
                for (i, c1) in inst.iter().enumerate() {
                    for c2 in inst.iter().skip(i + 1).step_by(step) {
                        if c1.kind_name() == c2.kind_name() && c1.views() == c2.views() {
                            continue;
                        }
                        out.push(Model::new(vars.clone(), vec![c1.clone(), c2.clone()]));
                    }
                }
            }
        }
    }
    out
}

fn reduced_kind(c: &Con) -> bool {
    match c {
        Con::LinLe(t, _) | Con::LinEq(t, _) | Con::LinNe(t, _) => t.len() >= 2 && t[0].var != t[1].var,
        Con::Cumulative { .. } => true,
        Con::PredClause(p) => p.len() == 2,
        Con::ViewClause(p) => p.len() == 2,
        Con::BinLt(..) | Con::BinNe(..) => true,
        Con::Times(..) | Con::Div(..) | Con::Max(..) | Con::Element { .. } | Con::AllDiff(..) => {
            true
        }
        Con::Abs(..) | Con::Plus(..) => true,
        _ => false,
    }
}

/// M3: conflict-rich models: 4 variables with 2-3 values, 3-4 constraints from a pool chosen so
/// that root propagation does not decide the model and search runs into conflicts.
pub fn m3(level: u8) -> Vec<Model> {
    let mut out = vec![];
    let layouts: Vec<Vec<VarDecl>> = vec![
        vec![VarDecl::interval(0, 2); 4],
        vec![
            VarDecl::interval(0, 1),
            VarDecl::interval(0, 2),
            VarDecl::from_values(&[0, 2]),
            VarDecl::interval(-1, 1),
        ],
        vec![VarDecl::interval(0, 1); 5],
    ];
    for vars in layouts {
        let n = vars.len();
        let mut pool: Vec<Con> = vec![];
        for i in 0..n {
            for j in i + 1..n {
                pool.push(Con::BinNe(View::id(i), View::id(j)));
                pool.push(Con::PredClause(vec![
                    Pred::new(i, PredKind::Ge, 1),
                    Pred::new(j, PredKind::Le, 0),
                ]));
                pool.push(Con::PredClause(vec![
                    Pred::new(i, PredKind::Eq, 0),
                    Pred::new(j, PredKind::Ne, 1),
                ]));
                if (i + j) % 2 == 1 {
                    pool.push(Con::LinLe(vec![View::id(i), View::id(j)], 1));
                    pool.push(Con::LinLe(vec![View::new(i, -1, 0), View::new(j, -1, 0)], -2));
                }
            }
        }
        pool.push(Con::AllDiff((0..3).map(View::id).collect()));
        pool.push(Con::LinNe((0..n).map(View::id).collect(), 2));
        pool.push(Con::LinEq((0..n).map(View::id).collect(), 3));
        pool.push(Con::LinLe((0..n).map(|i| View::new(i, -1, 0)).collect(), -3));
        pool.push(Con::Max(vec![View::id(0), View::id(1)], View::id(2)));
        pool.push(Con::Times(View::id(0), View::id(1), View::id(n - 1)));
        pool.push(Con::Element {
            index: View::id(0),
            array: vec![View::id(1), View::id(2), View::id(3)],
            rhs: View::id(n - 1),
        });
        pool.push(Con::Cumulative {
            starts: (0..3).map(View::id).collect(),
            durations: vec![1, 2, 1],
            usages: vec![1, 1, 1],
            cap: 1,
            opts: CumOpts::default_opts(),
        });
        let m = pool.len();
        // all triples with a stride that keeps the count manageable
        let stride = if level >= 1 { 1 } else { 5 };
        let mut k = 0usize;
        for a in 0..m {
            for b in a + 1..m {
                for c in b + 1..m {
                    k += 1;
                    if k % stride != 0 {
                        continue;
                    }
                    out.push(Model::new(
                        vars.clone(),
                        vec![pool[a].clone(), pool[b].clone(), pool[c].clone()],
                    ));
                }
            }
        }
    }
    out
}

/// M4: clause-rich models: several clauses sharing equality / disequality literals on one
/// variable with interior values, next to one linear constraint that moves several variables in
/// one propagation round (so that the nogood propagator meets conflicts while scanning the
/// watchers of one variable, re-propagates after backjumps, etc.).
pub fn m4(level: u8) -> Vec<Model> {
    let vars = vec![
        VarDecl::interval(0, 1), // z
        VarDecl::interval(0, 3), // x
        VarDecl::interval(0, 1), // a
        VarDecl::interval(0, 1), // b
    ];
    let (z, x, a, b) = (0usize, 1usize, 2usize, 3usize);
    let mut linear: Vec<Con> = vec![];
    for r in [1, 2] {
        linear.push(Con::LinLe(
            vec![View::id(x), View::new(a, 2, 0), View::new(z, -2, 0)],
            r,
        ));
    }
    linear.push(Con::LinLe(vec![View::id(x), View::id(a), View::id(b)], 3));
    linear.push(Con::LinLe(
        vec![View::new(x, -1, 0), View::new(b, -2, 0), View::new(z, 2, 0)],
        -2,
    ));
    if level >= 1 {
        linear.push(Con::LinNe(vec![View::id(x), View::id(a)], 2));
        linear.push(Con::LinEq(vec![View::id(x), View::id(a), View::id(z)], 3));
        linear.push(Con::Max(vec![View::id(a), View::id(b)], View::id(z)));
    }
    let xs = [
        Pred::new(x, PredKind::Eq, 1),
        Pred::new(x, PredKind::Eq, 2),
        Pred::new(x, PredKind::Ne, 1),
        Pred::new(x, PredKind::Ne, 2),
        Pred::new(x, PredKind::Ge, 2),
        Pred::new(x, PredKind::Le, 1),
    ];
    let os = [
        Pred::new(a, PredKind::Ge, 1),
        Pred::new(a, PredKind::Le, 0),
        Pred::new(b, PredKind::Ge, 1),
        Pred::new(b, PredKind::Le, 0),
        Pred::new(z, PredKind::Ge, 1),
        Pred::new(z, PredKind::Le, 0),
    ];
    let mut clauses: Vec<Con> = vec![];
    for p in xs {
        for q in os {
            clauses.push(Con::PredClause(vec![p, q]));
        }
    }
    let mut out = vec![];
    let stride = if level >= 1 { 1 } else { 3 };
    let mut k = 0usize;
    for l in &linear {
        for i in 0..clauses.len() {
            for j in i + 1..clauses.len() {
                k += 1;
                if k % stride != 0 {
                    continue;
                }
                out.push(Model::new(
                    vars.clone(),
                    vec![l.clone(), clauses[i].clone(), clauses[j].clone()],
                ));
            }
        }
    }
    out
}

/// M5: the clause space. Every clause with 2 or 3 predicates (and the all-equality clauses with 4)
/// from a pool that contains all four predicate kinds on two integer variables, including
/// several (dis)equalities on the same variable, bounds equal to a domain bound and values that
/// are holes; alone, together with a companion constraint that fixes both variables in one
/// propagation round, and (level >= 1 / strided at level 0) pairs of clauses.
pub fn m5(level: u8) -> Vec<Model> {
    let layouts: Vec<Vec<VarDecl>> = vec![
        vec![VarDecl::interval(0, 4), VarDecl::interval(0, 3), VarDecl::interval(0, 1)],
        vec![VarDecl::from_values(&[0, 1, 3, 4]), VarDecl::interval(0, 2), VarDecl::interval(0, 1)],
    ];
    let (x, y, z) = (0usize, 1usize, 2usize);
    let pool = [
        Pred::new(x, PredKind::Eq, 1),
        Pred::new(x, PredKind::Eq, 3),
        Pred::new(x, PredKind::Ne, 1),
        Pred::new(x, PredKind::Ne, 3),
        Pred::new(x, PredKind::Eq, 2),
        Pred::new(x, PredKind::Ge, 2),
        Pred::new(x, PredKind::Le, 2),
        Pred::new(x, PredKind::Ge, 4),
        Pred::new(x, PredKind::Le, 0),
        Pred::new(y, PredKind::Eq, 2),
        Pred::new(y, PredKind::Eq, 0),
        Pred::new(y, PredKind::Ne, 2),
        Pred::new(y, PredKind::Ne, 1),
        Pred::new(y, PredKind::Ge, 1),
        Pred::new(y, PredKind::Le, 1),
    ];
    let n = pool.len();
    let mut two: Vec<Con> = vec![];
    let mut clauses: Vec<Con> = vec![];
    for i in 0..n {
        for j in i + 1..n {
            two.push(Con::PredClause(vec![pool[i], pool[j]]));
            clauses.push(Con::PredClause(vec![pool[i], pool[j]]));
            for k in j + 1..n {
                clauses.push(Con::PredClause(vec![pool[i], pool[j], pool[k]]));
                // the same clause in another order (which predicates are watched first)
                if (i + j + k) % 3 == 0 {
                    clauses.push(Con::PredClause(vec![pool[k], pool[i], pool[j]]));
                }
            }
        }
    }
    clauses.push(Con::PredClause(vec![pool[0], pool[1], pool[9], pool[10]]));
    clauses.push(Con::PredClause(vec![pool[0], pool[9], pool[1], pool[10]]));
    clauses.push(Con::PredClause(vec![pool[0], pool[1], pool[4], pool[9]]));
    clauses.push(Con::PredClause(vec![pool[2], pool[3], pool[11], pool[12]]));
    let companions: Vec<Option<Con>> = vec![
        None,
        Some(Con::LinEq(vec![View::id(x), View::id(y)], 4)),
        Some(Con::LinLe(vec![View::id(x), View::id(y)], 3)),
        Some(Con::BinNe(View::id(x), View::id(y))),
        Some(Con::LinEq(vec![View::id(x), View::id(y), View::new(z, 2, 0)], 5)),
        Some(Con::LinEq(vec![View::id(x), View::new(y, -1, 0), View::new(z, -3, 0)], 0)),
    ];
    let mut out = vec![];
    for vars in &layouts {
        for (ci, comp) in companions.iter().enumerate() {
            for (k, c) in clauses.iter().enumerate() {
                if level == 0 && ci >= 2 && (k + ci) % 3 != 0 {
                    continue;
                }
                let mut cons = vec![];
                // the companion is posted first for even k, last for odd k
                if let Some(cc) = comp {
                    if k % 2 == 0 {
                        cons.push(cc.clone());
                    }
                }
                cons.push(c.clone());
                if let Some(cc) = comp {
                    if k % 2 == 1 {
                        cons.push(cc.clone());
                    }
                }
                out.push(Model::new(vars.clone(), cons));
            }
        }
        let stride = if level >= 1 { 1 } else { 5 };
        let mut k = 0usize;
        for i in 0..two.len() {
            for j in i + 1..two.len() {
                k += 1;
                if k % stride != 0 {
                    continue;
                }
                let mut cons = vec![two[i].clone(), two[j].clone()];
                if k % 4 == 0 {
                    cons.push(companions[4].clone().unwrap());
                }
                out.push(Model::new(vars.clone(), cons));
            }
        }
    }
    out
}

/// M6: literals defined by predicates (`Solver::new_literal_for_predicate`), used both as
/// literals (clauses, reification) and as 0-1 integer variables (linear, not-equal, element,
/// times, all-different).
pub fn m6(level: u8) -> Vec<Model> {
    let (x, y, l, m) = (0usize, 1usize, 2usize, 3usize);
    let ps = [
        Pred::new(x, PredKind::Ge, 2),
        Pred::new(x, PredKind::Eq, 1),
        Pred::new(x, PredKind::Ne, 2),
        Pred::new(x, PredKind::Le, 0),
    ];
    let qs = [
        Pred::new(y, PredKind::Eq, 1),
        Pred::new(y, PredKind::Ge, 1),
        Pred::new(x, PredKind::Eq, 3),
        Pred::new(y, PredKind::Ne, 0),
    ];
    let v = View::id;
    let cons: Vec<Con> = vec![
        Con::BinNe(v(l), v(m)),
        Con::BinEq(v(l), v(m)),
        Con::BinLt(v(l), v(m)),
        Con::LinNe(vec![v(l), v(m), v(x)], 2),
        Con::LinNe(vec![v(l), View::new(m, -1, 0)], 0),
        Con::LinLe(vec![v(l), v(m)], 1),
        Con::LinLe(vec![View::new(l, -1, 0), View::new(m, -1, 0)], -1),
        Con::LinEq(vec![v(l), v(m), v(y)], 2),
        Con::LinEq(vec![View::new(l, 2, 0), v(x), View::new(y, -1, 0)], 2),
        Con::AllDiff(vec![v(l), View::new(m, 1, 1), v(x)]),
        Con::Max(vec![v(l), v(m)], v(y)),
        Con::Times(v(l), v(x), v(y)),
        Con::Element {
            index: v(l),
            array: vec![v(x), v(y)],
            rhs: View::new(m, 2, 0),
        },
        Con::LitClause(vec![Lit::p(l), Lit::p(m)]),
        Con::LitClause(vec![Lit::n(l), Lit::p(m)]),
        Con::LitConj(vec![Lit::n(l), Lit::n(m)]),
        Con::Implied(Lit::p(l), Box::new(Con::BinNe(v(x), v(y)))),
        Con::Reified(Lit::p(m), Box::new(Con::LinLe(vec![v(x), v(y)], 2))),
        Con::Reified(Lit::n(l), Box::new(Con::BinEq(v(x), View::new(y, 1, 1)))),
        Con::BoolLinLe(vec![2, 1], vec![Lit::p(l), Lit::n(m)], 1),
        Con::PredClause(vec![Pred::new(l, PredKind::Ne, 1), Pred::new(m, PredKind::Eq, 1), Pred::new(y, PredKind::Le, 0)]),
    ];
    let mut out = vec![];
    for (pi, p) in ps.iter().enumerate() {
        for (qi, q) in qs.iter().enumerate() {
            let vars = vec![VarDecl::interval(0, 3), VarDecl::interval(0, 2), VarDecl::lit_for(*p), VarDecl::lit_for(*q)];
            for c in &cons {
                out.push(Model::new(vars.clone(), vec![c.clone()]));
            }
            let stride = if level >= 1 { 1 } else { 4 };
            let mut k = pi + qi;
            for i in 0..cons.len() {
                for j in i + 1..cons.len() {
                    k += 1;
                    if k % stride == 0 {
                        out.push(Model::new(vars.clone(), vec![cons[i].clone(), cons[j].clone()]));
                    }
                }
            }
        }
    }
    out
}

/// M7: clauses over predicates on views (`predicate![x.scaled(a).offset(b) <op> c]`): values inside
/// and outside the image of the view, of both signs, with scales of both signs and offsets that
/// are not multiples of the scale; unit clauses and clauses with a second predicate on another
/// variable, alone or with a companion constraint.
pub fn m7(level: u8) -> Vec<Model> {
    let (x, y) = (0usize, 1usize);
    let layouts: Vec<Vec<VarDecl>> = vec![
        vec![VarDecl::interval(-3, 2), VarDecl::interval(0, 3)],
        vec![VarDecl::from_values(&[-2, -1, 1, 3]), VarDecl::interval(0, 3)],
    ];
    let views = [
        View::new(x, 2, 1),
        View::new(x, -2, 1),
        View::new(x, 3, -1),
        View::new(x, -3, -2),
        View::new(x, 2, 0),
        View::new(x, -1, 0),
        View::new(x, 1, 2),
        View::new(x, -2, -3),
    ];
    let kinds = [PredKind::Eq, PredKind::Ne, PredKind::Ge, PredKind::Le];
    let values: Vec<i32> = if level >= 1 { (-7..=7).collect() } else { vec![-5, -3, -2, -1, 0, 1, 3, 4] };
    let seconds: Vec<Option<(View, PredKind, i32)>> = vec![
        None,
        Some((View::id(y), PredKind::Ge, 2)),
        Some((View::new(y, -2, 1), PredKind::Eq, -3)),
        Some((View::new(y, 2, -1), PredKind::Ne, 1)),
    ];
    let companions: Vec<Option<Con>> = vec![
        None,
        Some(Con::LinLe(vec![View::id(x), View::id(y)], 2)),
        Some(Con::BinNe(View::id(x), View::new(y, 1, -2))),
    ];
    let mut out = vec![];
    let mut k = 0usize;
    for vars in &layouts {
        for v in &views {
            for kind in &kinds {
                for c in &values {
                    for (si, second) in seconds.iter().enumerate() {
                        for (ci, comp) in companions.iter().enumerate() {
                            k += 1;
                            if level == 0 && (si + ci > 0) && k % 3 != 0 {
                                continue;
                            }
                            let mut ps = vec![(*v, *kind, *c)];
                            if let Some(s) = second {
                                // first or second position
                                if k % 2 == 0 {
                                    ps.push(*s);
                                } else {
                                    ps.insert(0, *s);
                                }
                            }
                            let mut cons = vec![];
                            if let Some(cc) = comp {
                                cons.push(cc.clone());
                            }
                            cons.push(Con::ViewClause(ps));
                            out.push(Model::new(vars.clone(), cons));
                        }
                    }
                }
            }
        }
    }
    out
}

/// M8: medium-sized models (5 variables with 2-5 values each, 3 constraints from a pool of 34 over
/// all constraint kinds): every `stride`-th triple in lexicographic order, kept when the reference
/// has at most 250 solutions. Their complete enumeration drives incremental propagator state,
/// learned nogoods, restarts and the nogood database through much longer runs than M1-M7.
pub fn m8(level: u8) -> Vec<Model> {
    let vars = vec![
        VarDecl::interval(0, 4),
        VarDecl::interval(-2, 2),
        VarDecl::from_values(&[0, 1, 3, 4, 6]),
        VarDecl::interval(0, 3),
        VarDecl::lit(),
    ];
    let v = View::id;
    let n = |i: usize, a: i32, b: i32| View::new(i, a, b);
    let pool: Vec<Con> = vec![
        Con::LinLe(vec![v(0), v(1), v(2)], 4),
        Con::LinLe(vec![n(0, -1, 0), n(2, -1, 0), v(3)], -5),
        Con::LinEq(vec![v(0), v(1), v(3)], 3),
        Con::LinEq(vec![n(0, 2, 0), n(1, -1, 0), v(2)], 6),
        Con::LinNe(vec![v(0), v(2), v(3)], 6),
        Con::LinNe(vec![v(1), n(2, -1, 0), v(3), v(4)], -1),
        Con::LinNe(vec![n(0, 2, 0), v(1), v(4)], 3),
        Con::BinNe(v(0), v(3)),
        Con::BinNe(n(1, 1, 2), v(2)),
        Con::BinLe(v(3), v(0)),
        Con::BinLt(v(1), v(3)),
        Con::BinEq(n(4, 3, 0), v(2)),
        Con::AllDiff(vec![v(0), v(2), v(3)]),
        Con::AllDiff(vec![v(0), n(1, 1, 2), v(3), n(4, 4, 0)]),
        Con::Plus(v(0), v(1), v(3)),
        Con::Times(v(3), v(4), v(0)),
        Con::Times(v(1), v(1), v(0)),
        Con::Abs(v(1), v(3)),
        Con::Max(vec![v(0), v(3)], v(2)),
        Con::Min(vec![v(0), v(2), v(3)], n(1, 1, 1)),
        Con::Div(v(2), n(3, 1, 1), v(0)),
        Con::Element { index: v(3), array: vec![v(0), v(1), v(2), n(4, 2, 0)], rhs: v(0) },
        Con::Element { index: v(4), array: vec![v(2), v(0)], rhs: n(3, 2, 0) },
        Con::Cumulative { starts: vec![v(0), v(2), v(3)], durations: vec![2, 1, 2], usages: vec![1, 2, 1], cap: 2, opts: CumOpts::default_opts() },
        Con::Cumulative { starts: vec![v(0), n(1, 1, 2), v(3)], durations: vec![1, 2, 2], usages: vec![1, 1, 1], cap: 1, opts: CumOpts::default_opts() },
        Con::PredClause(vec![Pred::new(0, PredKind::Eq, 1), Pred::new(0, PredKind::Eq, 3), Pred::new(2, PredKind::Ge, 4)]),
        Con::PredClause(vec![Pred::new(1, PredKind::Ne, 0), Pred::new(3, PredKind::Le, 1), Pred::new(4, PredKind::Ge, 1)]),
        Con::PredClause(vec![Pred::new(2, PredKind::Ne, 3), Pred::new(2, PredKind::Ne, 4), Pred::new(0, PredKind::Le, 0)]),
        Con::ViewClause(vec![(n(1, 2, 1), PredKind::Eq, -3), (n(0, -1, 0), PredKind::Le, -3)]),
        Con::Implied(Lit::p(4), Box::new(Con::LinLe(vec![v(0), v(3)], 3))),
        Con::Reified(Lit::p(4), Box::new(Con::BinNe(v(0), v(2)))),
        Con::Reified(Lit::n(4), Box::new(Con::LinEq(vec![v(1), v(3)], 1))),
        Con::BoolLinLe(vec![2], vec![Lit::p(4)], 1),
        Con::Neg(Box::new(Con::BinEq(v(0), v(2)))),
    ];
    let stride = if level >= 1 { 3 } else { 29 };
    let mut out = vec![];
    let mut k = 0usize;
    for i in 0..pool.len() {
        for j in i + 1..pool.len() {
            for l in j + 1..pool.len() {
                k += 1;
                if k % stride != 0 {
                    continue;
                }
                let m = Model::new(vars.clone(), vec![pool[i].clone(), pool[j].clone(), pool[l].clone()]);
                let mut count = 0usize;
                m.for_each_assignment(|a| {
                    if count <= 250 && m.holds(a) {
                        count += 1;
                    }
                });
                if count <= 250 {
                    out.push(m);
                }
            }
        }
    }
    out
}

/// M9: disequality-heavy search problems of medium size (n-queens, graph colouring, pigeonhole,
/// all-different with a sum): many conflicts, learned nogoods with `!=` predicates over non-Boolean
/// domains, enough of them for the learned-nogood database (deletion rounds, id reuse) and the
/// restart policies to matter.
pub fn m9(level: u8) -> Vec<Model> {
    let v = View::id;
    let mut out = vec![];
    // n-queens as binary not-equals over offset views
    let ns: Vec<usize> = if level >= 1 { vec![4, 5, 6] } else { vec![4, 5] };
    for n in ns {
        let vars = vec![VarDecl::interval(0, n as i32 - 1); n];
        let mut cons = vec![];
        for i in 0..n {
            for j in i + 1..n {
                let d = (j - i) as i32;
                cons.push(Con::BinNe(v(i), v(j)));
                cons.push(Con::BinNe(v(i), View::new(j, 1, d)));
                cons.push(Con::BinNe(v(i), View::new(j, 1, -d)));
            }
        }
        out.push(Model::new(vars.clone(), cons.clone()));
        // the same with all-different rows and linear not-equals diagonals
        let mut cons2 = vec![Con::AllDiff((0..n).map(v).collect())];
        for i in 0..n {
            for j in i + 1..n {
                let d = (j - i) as i32;
                cons2.push(Con::LinNe(vec![v(i), View::new(j, -1, 0)], d));
                cons2.push(Con::LinNe(vec![v(i), View::new(j, -1, 0)], -d));
            }
        }
        out.push(Model::new(vars, cons2));
    }
    // graph colouring
    let graphs: Vec<(usize, Vec<(usize, usize)>, i32)> = vec![
        (5, vec![(0, 1), (1, 2), (2, 3), (3, 4), (4, 0)], 3),                                  // C5, 3 colours
        (4, vec![(0, 1), (0, 2), (0, 3), (1, 2), (1, 3), (2, 3)], 3),                          // K4, 3 colours: unsat
        (6, vec![(0, 1), (1, 2), (2, 0), (3, 4), (4, 5), (5, 3), (0, 3), (1, 4), (2, 5)], 3), // prism
        (5, vec![(0, 1), (0, 2), (0, 3), (0, 4), (1, 2), (2, 3), (3, 4), (4, 1)], 3),          // wheel W4, 3 colours
        (5, vec![(0, 1), (0, 2), (0, 3), (0, 4), (1, 2), (2, 3), (3, 4), (4, 1)], 4),          // wheel W4, 4 colours
    ];
    for (n, edges, k) in graphs {
        if level == 0 && n == 6 {
            continue;
        }
        let vars = vec![VarDecl::interval(0, k - 1); n];
        let cons: Vec<Con> = edges.iter().map(|(a, b)| Con::BinNe(v(*a), v(*b))).collect();
        out.push(Model::new(vars, cons));
    }
    // pigeonhole: 4 pigeons, 3 holes (unsat), as binary not-equals
    {
        let vars = vec![VarDecl::interval(0, 2); 4];
        let mut cons = vec![];
        for i in 0..4 {
            for j in i + 1..4 {
                cons.push(Con::BinNe(v(i), v(j)));
            }
        }
        out.push(Model::new(vars, cons));
    }
    // all-different with sums and holes in the domains
    out.push(Model::new(
        vec![VarDecl::interval(0, 4), VarDecl::from_values(&[0, 2, 3, 5]), VarDecl::interval(1, 4), VarDecl::from_values(&[-1, 1, 2, 4])],
        vec![
            Con::AllDiff((0..4).map(v).collect()),
            Con::LinEq(vec![v(0), v(1), v(2), v(3)], 8),
            Con::LinNe(vec![v(0), View::new(3, -1, 0)], 1),
        ],
    ));
    // clause-dense models: 6 variables over 0..3 and 20 clauses of 3 predicates each; the clauses of
    // model (a, b) are the elements a, a+b, a+2b, ... (mod 96^3) of the product space of clauses
    // (3 x (variable, value, kind)) in mixed-radix order
    let params: Vec<(u64, u64)> = if level >= 1 {
        (0..40).map(|i| (7 + 31 * i, 100_003 + 2 * 7919 * i)).collect()
    } else {
        (0..6).map(|i| (7 + 31 * i, 100_003 + 2 * 7919 * i)).collect()
    };
    for (a, b) in params {
        let space = 96u64 * 96 * 96;
        let mut cons = vec![];
        for j in 0..20u64 {
            let mut x = (a + j * b) % space;
            let mut ps = vec![];
            for _ in 0..3 {
                let d = x % 96;
                x /= 96;
                let var = (d % 6) as usize;
                let val = ((d / 6) % 4) as i32;
                let kind = match d / 24 {
                    0 => PredKind::Eq,
                    1 => PredKind::Ne,
                    2 => PredKind::Ge,
                    _ => PredKind::Le,
                };
                ps.push(Pred::new(var, kind, val));
            }
            cons.push(Con::PredClause(ps));
        }
        out.push(Model::new(vec![VarDecl::interval(0, 3); 6], cons));
    }
    out.push(Model::new(
        vec![VarDecl::interval(0, 3), VarDecl::interval(0, 3), VarDecl::interval(0, 3), VarDecl::interval(0, 3), VarDecl::interval(0, 1)],
        vec![
            Con::AllDiff(vec![v(0), v(1), v(2), v(3)]),
            Con::LinLe(vec![v(0), v(1), View::new(2, -1, 0)], 1),
            Con::PredClause(vec![Pred::new(0, PredKind::Ne, 0), Pred::new(3, PredKind::Ne, 3), Pred::new(4, PredKind::Ge, 1)]),
            Con::PredClause(vec![Pred::new(1, PredKind::Eq, 1), Pred::new(2, PredKind::Eq, 1), Pred::new(4, PredKind::Le, 0)]),
        ],
    ));
    out
}

/// M10: sparse variables created from value lists as a caller may pass them - unsorted, with
/// repeated values (a repeated minimum, middle value, maximum), through the named and the unnamed
/// constructor - alone and under one constraint.
pub fn m10(_level: u8) -> Vec<Model> {
    let lists: Vec<Vec<i32>> = vec![
        vec![2, 5, 0, 2, 7],
        vec![-4, 3, -4, 1, -1],
        vec![3, 1, 2],
        vec![7, 7, 0],
        vec![0, 0],
        vec![5, 4, 4, 3, 3, -1],
        vec![1, 3, 5],
        vec![6, -2, 6, 1, -2, 4],
    ];
    let v = View::id;
    let mut out = vec![];
    for list in &lists {
        for named in [false, true] {
            let vars = vec![VarDecl::sparse_raw(list, named), VarDecl::interval(0, 3)];
            let cons: Vec<Vec<Con>> = vec![
                vec![Con::BinNe(v(0), v(1))],
                vec![Con::LinLe(vec![v(0), v(1)], 6)],
                vec![Con::LinLe(vec![View::new(0, -1, 0), v(1)], -2)],
                vec![Con::BinLe(v(1), v(0))],
                vec![Con::PredClause(vec![Pred::new(0, PredKind::Ge, 4), Pred::new(1, PredKind::Le, 0)])],
                vec![Con::Max(vec![v(0), v(1)], View::new(1, 2, 0))],
            ];
            for c in cons {
                out.push(Model::new(vars.clone(), c));
            }
        }
    }
    out
}

/// M11: literals used as 0-1 integer variables through offset / scaled views of the literals
/// themselves (`Literal::offset`, `Literal::scaled`), alone and in pairs.
pub fn m11(level: u8) -> Vec<Model> {
    let vars = vec![VarDecl::lit(), VarDecl::lit(), VarDecl::lit()];
    let w = View::new;
    let pool: Vec<Con> = vec![
        // (a-2) + (b-2) + (c-1) <= -4, i.e. a + b + c <= 1
        Con::LinLe(vec![w(0, 1, -2), w(1, 1, -2), w(2, 1, -1)], -4),
        Con::LinLe(vec![w(0, 2, 0), w(1, -1, 0), w(2, 1, 3)], 3),
        Con::LinLe(vec![w(0, -3, 0), w(1, 1, 1)], -1),
        Con::LinEq(vec![w(0, 1, 2), w(1, 1, -1), w(2, -1, 0)], 2),
        Con::LinEq(vec![w(0, 2, 0), w(1, 1, 5)], 6),
        Con::LinNe(vec![w(0, 1, 1), w(1, 1, 1), w(2, 1, 1)], 4),
        Con::LinNe(vec![w(0, -1, 0), w(1, 1, 3)], 3),
        Con::BinLe(w(0, 1, 1), w(1, 2, 0)),
        Con::BinLe(w(0, 1, -3), w(1, 1, -4)),
        Con::BinLt(w(0, 1, 0), w(1, 1, 0)),
        Con::BinLt(w(0, 1, 2), w(1, 3, 0)),
        Con::BinEq(w(0, 1, 1), w(1, -1, 2)),
        Con::BinEq(w(0, 1, -1), w(1, 1, -1)),
        Con::BinNe(w(0, 1, 4), w(1, 1, 4)),
        Con::BinNe(w(0, 2, 0), w(1, 1, 1)),
        Con::Max(vec![w(0, 1, 1), w(1, 2, 0)], w(2, 1, 1)),
        Con::Max(vec![w(0, 1, -1), w(1, 1, -1)], w(2, -1, 0)),
        Con::Abs(w(0, 1, -1), w(1, 1, 0)),
        Con::Times(w(0, 1, 1), w(1, 1, 1), w(2, 3, 1)),
        Con::Plus(w(0, 1, 1), w(1, 1, -1), w(2, 2, 0)),
    ];
    let mut out = vec![];
    for c in &pool {
        out.push(Model::new(vars.clone(), vec![c.clone()]));
    }
    let stride = if level >= 1 { 1 } else { 3 };
    let mut k = 0;
    for (i, a) in pool.iter().enumerate() {
        for b in pool.iter().skip(i + 1) {
            k += 1;
            if k % stride == 0 {
                out.push(Model::new(vars.clone(), vec![a.clone(), b.clone()]));
            }
        }
    }
    out
}

/// M12: the solver's constant literals (`get_true_literal` / `get_false_literal`) in clauses,
/// conjunctions, Boolean linear constraints, as reification literals and as 0-1 integer
/// variables, next to ordinary variables.
pub fn m12(level: u8) -> Vec<Model> {
    // x0: 0..2, x1: {0,2,3}, x2: literal, x3: the constant literal
    let vars = vec![VarDecl::interval(0, 2), VarDecl::from_values(&[0, 2, 3]), VarDecl::lit(), VarDecl::const_true()];
    let v = View::id;
    let (t, f) = (Lit::p(3), Lit::n(3));
    let (b, nb) = (Lit::p(2), Lit::n(2));
    let inner: Vec<Con> = vec![
        Con::LinLe(vec![v(0), v(1)], 2),
        Con::BinNe(v(0), v(1)),
        Con::LinNe(vec![v(0), View::new(1, -1, 0)], 0),
        Con::BinLe(v(1), v(0)),
        Con::LinEq(vec![v(0), v(1)], 3),
    ];
    let mut pool: Vec<Con> = vec![];
    for c in &inner {
        for l in [t, f] {
            pool.push(Con::Implied(l, Box::new(c.clone())));
            pool.push(Con::Reified(l, Box::new(c.clone())));
        }
    }
    pool.extend([
        Con::LitClause(vec![t, b]),
        Con::LitClause(vec![f, b]),
        Con::LitClause(vec![f, nb]),
        Con::LitClause(vec![f]),
        Con::LitClause(vec![t]),
        Con::LitClause(vec![f, f]),
        Con::LitConj(vec![t, b]),
        Con::LitConj(vec![nb, t]),
        Con::LitConj(vec![f, b]),
        Con::BoolLinLe(vec![2, 1], vec![t, b], 2),
        Con::BoolLinLe(vec![1, 1], vec![f, b], 0),
        Con::BoolLinLe(vec![-1, 1], vec![t, nb], -1),
        Con::BoolLinEq(vec![1, 1], vec![t, b], 0),
        Con::BoolLinEq(vec![2, 1], vec![f, nb], 0),
        Con::BoolLinEq(vec![1, 2], vec![b, t], 1),
        // weights equal to 0
        Con::BoolLinLe(vec![0, 2], vec![b, t], 1),
        Con::BoolLinLe(vec![3, 0], vec![nb, f], 2),
        Con::BoolLinEq(vec![0, 1], vec![t, b], 0),
        // the constant literal as an integer variable
        Con::LinLe(vec![View::new(3, 2, 0), v(0)], 3),
        Con::LinLe(vec![View::new(3, 1, 1), View::new(2, 1, -1)], 1),
        Con::BinNe(View::new(3, 1, 0), View::new(2, 1, 0)),
        Con::BinEq(View::new(3, -1, 2), View::new(2, 1, 1)),
        Con::Max(vec![v(3), v(2)], v(0)),
        Con::Times(v(3), v(0), v(1)),
        Con::Element { index: v(3), array: vec![v(0), v(1)], rhs: v(0) },
        Con::AllDiff(vec![v(3), v(0), v(1)]),
    ]);
    let mut out = vec![];
    for c in &pool {
        out.push(Model::new(vars.clone(), vec![c.clone()]));
    }
    let stride = if level >= 1 { 1 } else { 5 };
    let mut k = 0;
    for (i, a) in pool.iter().enumerate() {
        for c in pool.iter().skip(i + 1) {
            k += 1;
            if k % stride == 0 {
                out.push(Model::new(vars.clone(), vec![a.clone(), c.clone()]));
            }
        }
    }
    out
}

/// Is the model non-trivial: neither every assignment is a solution nor none.
pub fn nontrivial(model: &Model, num_solutions: usize) -> bool {
    num_solutions > 0 && (num_solutions as u64) < model.space_size()
}
