//! Small wrappers around the public solving API which turn results into plain data and panics
//! into values.
use pumpkin_solver::branching::Brancher;
use pumpkin_solver::optimisation::linear_sat_unsat::LinearSatUnsat;
use pumpkin_solver::optimisation::linear_unsat_sat::LinearUnsatSat;
use pumpkin_solver::optimisation::OptimisationDirection;
use pumpkin_solver::predicates::Predicate;
use pumpkin_solver::results::solution_iterator::IteratedSolution;
use pumpkin_solver::results::OptimisationResult;
use pumpkin_solver::results::ProblemSolution;
use pumpkin_solver::results::SatisfactionResult;
use pumpkin_solver::results::SatisfactionResultUnderAssumptions;
use pumpkin_solver::results::Solution;
use pumpkin_solver::results::SolutionReference;
use pumpkin_solver::termination::TerminationCondition;
use pumpkin_solver::variables::AffineView;
use pumpkin_solver::variables::DomainId;
use pumpkin_solver::Solver;

use crate::drive::*;
use crate::orch::guard;
use crate::refmodel::*;
use pumpkin_solver::variables::TransformableVariable;

/// Values of the model's variables in a solution; Err if some variable has no value.
pub fn extract(sol: &Solution, ids: &[DomainId]) -> Result<Vec<i32>, String> {
    let mut out = vec![];
    for (i, id) in ids.iter().enumerate() {
        if !sol.contains_domain_id(*id) {
            return Err(format!("solution does not contain variable x{i}"));
        }
        match guard(|| sol.get_integer_value(*id)) {
            Ok(v) => {
                // the same value read through views and through a reference to the solution
                let through_views = guard(|| {
                    let r = sol.as_reference();
                    (
                        sol.get_integer_value(id.scaled(-2)),
                        sol.get_integer_value(id.offset(7)),
                        sol.get_integer_value(id.scaled(3).offset(-1)),
                        r.get_integer_value(*id),
                        r.get_integer_value(id.scaled(-1).offset(2)),
                    )
                });
                let expected = (v.wrapping_mul(-2), v.wrapping_add(7), v.wrapping_mul(3).wrapping_sub(1), v, v.wrapping_neg().wrapping_add(2));
                if v.unsigned_abs() < 100_000_000 && through_views != Ok(expected) {
                    return Err(format!("x{i} = {v}, but read through the views -2x, x+7, 3x-1 and a solution reference (x, -x+2): {through_views:?}"));
                }
                out.push(v)
            }
            Err(e) => return Err(format!("variable x{i} has no value in the solution: {e}")),
        }
    }
    Ok(out)
}

pub fn extract_ref(sol: SolutionReference, ids: &[DomainId]) -> Result<Vec<i32>, String> {
    let mut out = vec![];
    for (i, id) in ids.iter().enumerate() {
        match guard(|| sol.get_integer_value(*id)) {
            Ok(v) => out.push(v),
            Err(e) => return Err(format!("variable x{i} has no value in the solution: {e}")),
        }
    }
    Ok(out)
}

/// C01 oracle: every value inside its declared domain and every constraint holds.
pub fn check_assignment(model: &Model, asg: &[i32]) -> Result<(), String> {
    for (i, d) in model.vars.iter().enumerate() {
        if !d.values.contains(&asg[i]) {
            return Err(format!(
                "x{i}={} is outside its declared domain {:?}",
                asg[i], d.values
            ));
        }
    }
    for (k, c) in model.cons.iter().enumerate() {
        if !c.holds(asg) {
            return Err(format!("constraint #{k} `{c}` is violated by {:?}", asg));
        }
    }
    Ok(())
}

#[derive(Debug, Clone, PartialEq, Eq)]
pub enum SatOut {
    Sat(Vec<i32>),
    Unsat,
    Unknown,
    /// a solution was returned but could not be read
    Broken(String),
}

pub struct Satisfy<'a, T: TerminationCondition> {
    pub ids: &'a [DomainId],
    pub term: &'a mut T,
}

impl<T: TerminationCondition> WithBrancher for Satisfy<'_, T> {
    type Out = Result<SatOut, String>;
    fn call<B: Brancher>(self, solver: &mut Solver, brancher: &mut B) -> Self::Out {
        let ids = self.ids;
        let term = self.term;
        guard(move || match solver.satisfy(brancher, term) {
            SatisfactionResult::Satisfiable(s) => match extract(&s, ids) {
                Ok(v) => SatOut::Sat(v),
                Err(e) => SatOut::Broken(e),
            },
            SatisfactionResult::Unsatisfiable => SatOut::Unsat,
            SatisfactionResult::Unknown => SatOut::Unknown,
        })
    }
}

#[derive(Debug, Clone, PartialEq, Eq)]
pub enum IterEnd {
    Finished,
    Unsat,
    Unknown,
    CapExceeded,
    Panic(String),
    Broken(String),
    /// the caller asked to stop after k solutions
    Stopped,
}

pub struct Iterate<'a, T: TerminationCondition> {
    pub ids: &'a [DomainId],
    pub term: &'a mut T,
    /// maximum number of solutions to accept before giving up
    pub cap: usize,
    /// stop (without error) after this many solutions
    pub stop_after: Option<usize>,
    /// called after every solution with (index, assignment)
    pub on_solution: &'a mut dyn FnMut(usize, &[i32]),
}

impl<T: TerminationCondition> WithBrancher for Iterate<'_, T> {
    type Out = (Vec<Vec<i32>>, IterEnd);
    fn call<B: Brancher>(self, solver: &mut Solver, brancher: &mut B) -> Self::Out {
        let Iterate {
            ids,
            term,
            cap,
            stop_after,
            on_solution,
        } = self;
        let mut sols: Vec<Vec<i32>> = vec![];
        let r = guard(|| {
            let mut it = solver.get_solution_iterator(brancher, term);
            loop {
                if let Some(k) = stop_after {
                    if sols.len() >= k {
                        return IterEnd::Stopped;
                    }
                }
                match it.next_solution() {
                    IteratedSolution::Solution(s, _, _) => match extract(&s, ids) {
                        Ok(v) => {
                            on_solution(sols.len(), &v);
                            sols.push(v);
                            if sols.len() > cap {
                                return IterEnd::CapExceeded;
                            }
                        }
                        Err(e) => return IterEnd::Broken(e),
                    },
                    IteratedSolution::Finished => return IterEnd::Finished,
                    IteratedSolution::Unsatisfiable => return IterEnd::Unsat,
                    IteratedSolution::Unknown => return IterEnd::Unknown,
                }
            }
        });
        match r {
            Ok(e) => (sols, e),
            Err(p) => (sols, IterEnd::Panic(p)),
        }
    }
}

/// Complete iteration that keeps calling `next_solution` on the same iterator after an
/// `Unknown` (an interrupt that does not stay triggered), up to `max_unknowns` times.
pub struct IterateResuming<'a, T: TerminationCondition> {
    pub ids: &'a [DomainId],
    pub term: &'a mut T,
    pub cap: usize,
    pub max_unknowns: usize,
}

impl<T: TerminationCondition> WithBrancher for IterateResuming<'_, T> {
    /// (solutions, end, number of Unknown results that were resumed)
    type Out = (Vec<Vec<i32>>, IterEnd, usize);
    fn call<B: Brancher>(self, solver: &mut Solver, brancher: &mut B) -> Self::Out {
        let IterateResuming { ids, term, cap, max_unknowns } = self;
        let mut sols: Vec<Vec<i32>> = vec![];
        let mut unknowns = 0usize;
        let r = guard(|| {
            let mut it = solver.get_solution_iterator(brancher, term);
            loop {
                match it.next_solution() {
                    IteratedSolution::Solution(s, _, _) => match extract(&s, ids) {
                        Ok(v) => {
                            sols.push(v);
                            if sols.len() > cap {
                                return IterEnd::CapExceeded;
                            }
                        }
                        Err(e) => return IterEnd::Broken(e),
                    },
                    IteratedSolution::Finished => return IterEnd::Finished,
                    IteratedSolution::Unsatisfiable => return IterEnd::Unsat,
                    IteratedSolution::Unknown => {
                        unknowns += 1;
                        if unknowns > max_unknowns {
                            return IterEnd::Unknown;
                        }
                    }
                }
            }
        });
        match r {
            Ok(e) => (sols, e, unknowns),
            Err(p) => (sols, IterEnd::Panic(p), unknowns),
        }
    }
}

#[derive(Debug, Clone, PartialEq, Eq)]
pub enum OptOut {
    Optimal(Vec<i32>),
    Satisfiable(Vec<i32>),
    Unsat,
    Unknown,
    Broken(String),
}

pub struct Optimise<'a, T: TerminationCondition> {
    pub ids: &'a [DomainId],
    pub term: &'a mut T,
    pub objective: AffineView<DomainId>,
    pub maximise: bool,
    /// true: LinearUnsatSat, false: LinearSatUnsat
    pub unsat_sat: bool,
    /// assignments seen by the solution callback
    pub callback_solutions: &'a std::cell::RefCell<Vec<Result<Vec<i32>, String>>>,
}

impl<T: TerminationCondition> WithBrancher for Optimise<'_, T> {
    type Out = Result<OptOut, String>;
    fn call<B: Brancher>(self, solver: &mut Solver, brancher: &mut B) -> Self::Out {
        let Optimise {
            ids,
            term,
            objective,
            maximise,
            unsat_sat,
            callback_solutions,
        } = self;
        let direction = if maximise {
            OptimisationDirection::Maximise
        } else {
            OptimisationDirection::Minimise
        };
        let callback = |_: &Solver, s: SolutionReference, _: &B| {
            callback_solutions.borrow_mut().push(extract_ref(s, ids));
        };
        guard(move || {
            let r = if unsat_sat {
                solver.optimise(
                    brancher,
                    term,
                    LinearUnsatSat::new(direction, objective, callback),
                )
            } else {
                solver.optimise(
                    brancher,
                    term,
                    LinearSatUnsat::new(direction, objective, callback),
                )
            };
            let conv = |s: &Solution| extract(s, ids);
            match r {
                OptimisationResult::Optimal(s) => match conv(&s) {
                    Ok(v) => OptOut::Optimal(v),
                    Err(e) => OptOut::Broken(e),
                },
                OptimisationResult::Satisfiable(s) => match conv(&s) {
                    Ok(v) => OptOut::Satisfiable(v),
                    Err(e) => OptOut::Broken(e),
                },
                OptimisationResult::Unsatisfiable => OptOut::Unsat,
                OptimisationResult::Unknown => OptOut::Unknown,
            }
        })
    }
}

#[derive(Debug, Clone, PartialEq, Eq)]
pub enum AssumeOut {
    Sat(Vec<i32>),
    /// unsatisfiable under assumptions; the core if extraction was requested
    UnsatAssumptions(Option<Result<Vec<Predicate>, String>>, Option<Result<Vec<Predicate>, String>>),
    Unsat,
    Unknown,
    Broken(String),
}

pub struct Assume<'a, T: TerminationCondition> {
    pub ids: &'a [DomainId],
    pub term: &'a mut T,
    pub assumptions: &'a [Predicate],
    /// how many times extract_core is called (0, 1, 2)
    pub extract: u8,
}

impl<T: TerminationCondition> WithBrancher for Assume<'_, T> {
    type Out = Result<AssumeOut, String>;
    fn call<B: Brancher>(self, solver: &mut Solver, brancher: &mut B) -> Self::Out {
        let Assume {
            ids,
            term,
            assumptions,
            extract: n_extract,
        } = self;
        guard(move || {
            match solver.satisfy_under_assumptions(brancher, term, assumptions) {
                SatisfactionResultUnderAssumptions::Satisfiable(s) => match extract(&s, ids) {
                    Ok(v) => AssumeOut::Sat(v),
                    Err(e) => AssumeOut::Broken(e),
                },
                SatisfactionResultUnderAssumptions::UnsatisfiableUnderAssumptions(mut u) => {
                    let mut cores = vec![];
                    for _ in 0..n_extract {
                        // the guard inside keeps `u` alive so that its Drop restores the solver
                        let c = guard(|| u.extract_core().to_vec());
                        cores.push(c);
                    }
                    let mut it = cores.into_iter();
                    AssumeOut::UnsatAssumptions(it.next(), it.next())
                }
                SatisfactionResultUnderAssumptions::Unsatisfiable => AssumeOut::Unsat,
                SatisfactionResultUnderAssumptions::Unknown => AssumeOut::Unknown,
            }
        })
    }
}

/// Objective value of an assignment under a view.
pub fn obj_value(v: &View, asg: &[i32]) -> i128 {
    v.eval(asg)
}
