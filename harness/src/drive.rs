//! Binding the reference model to the real solver: posting a `Model` through the public API,
//! solver configurations, brancher factory (incl. the scripted brancher = controlled scheduler)
//! and the counting termination condition (= fault injector).
use std::cell::RefCell;
use std::num::NonZero;
use std::rc::Rc;

use pumpkin_solver::branching::branchers::alternating_brancher::AlternatingBrancher;
use pumpkin_solver::branching::branchers::alternating_brancher::AlternatingStrategy;
use pumpkin_solver::branching::branchers::dynamic_brancher::DynamicBrancher;
use pumpkin_solver::branching::branchers::independent_variable_value_brancher::IndependentVariableValueBrancher;
use pumpkin_solver::branching::tie_breaking::Direction;
use pumpkin_solver::branching::tie_breaking::InOrderTieBreaker;
use pumpkin_solver::branching::tie_breaking::RandomTieBreaker;
use pumpkin_solver::branching::value_selection::*;
use pumpkin_solver::branching::variable_selection::*;
use pumpkin_solver::branching::Brancher;
use pumpkin_solver::branching::BrancherEvent;
use pumpkin_solver::branching::SelectionContext;
use pumpkin_solver::constraints;
use pumpkin_solver::constraints::Constraint;
use pumpkin_solver::constraints::NegatableConstraint;
use pumpkin_solver::options::*;
use pumpkin_solver::predicates::Predicate;
use pumpkin_solver::predicate;
use pumpkin_solver::proof::ProofLog;
use pumpkin_solver::termination::TerminationCondition;
use pumpkin_solver::variables::AffineView;
use pumpkin_solver::variables::DomainId;
use pumpkin_solver::variables::IntegerVariable;
use pumpkin_solver::variables::Literal;
use pumpkin_solver::variables::TransformableVariable;
use pumpkin_solver::ConstraintOperationError;
use pumpkin_solver::Solver;
use rand::rngs::SmallRng;
use rand::SeedableRng;

use crate::refmodel::*;

// ------------------------------------------------------------------------------------------------
// Solver configurations
// ------------------------------------------------------------------------------------------------

#[derive(Clone, Copy, Debug, PartialEq, Eq, Hash)]
pub enum RestartCfg {
    None,
    Default,
    /// constant sequence, base 1, no minimum: restart after every conflict
    Constant1,
    Luby1,
    Geometric1,
    /// Luby restarts from the first conflict on, with the LBD gate (lbd_coef 1.25) and restart
    /// blocking (num_assigned_coef 1.0 over a window of 2) active
    Blocking,
}

#[derive(Clone, Copy, Debug, PartialEq, Eq, Hash)]
pub enum LearnCfg {
    Default,
    /// limit 0, lbd_threshold 0, sorted by LBD: every learned nogood is deletable at once
    L0Lbd,
    /// limit 1, lbd_threshold 0, sorted by activity
    L1Act,
    /// limit 2, lbd_threshold 1, sorted by LBD
    L2Lbd,
}

#[derive(Clone, Copy, Debug, PartialEq, Eq, Hash)]
pub struct Cfg {
    pub uip: bool,
    pub minimise: bool,
    pub restart: RestartCfg,
    pub learn: LearnCfg,
    pub seed: u64,
}

impl Cfg {
    pub fn default_cfg() -> Cfg {
        Cfg {
            uip: true,
            minimise: true,
            restart: RestartCfg::Default,
            learn: LearnCfg::Default,
            seed: 42,
        }
    }

    /// The full product used by C07 (minus combinations that may legitimately livelock:
    /// restart-after-every-conflict together with a nogood database that forgets everything).
    pub fn product() -> Vec<Cfg> {
        let mut v = vec![];
        for uip in [true, false] {
            for minimise in [true, false] {
                for restart in [
                    RestartCfg::None,
                    RestartCfg::Constant1,
                    RestartCfg::Luby1,
                    RestartCfg::Geometric1,
                    RestartCfg::Blocking,
                ] {
                    for learn in [
                        LearnCfg::Default,
                        LearnCfg::L0Lbd,
                        LearnCfg::L1Act,
                        LearnCfg::L2Lbd,
                    ] {
                        for seed in [0, 1, 42] {
                            let c = Cfg {
                                uip,
                                minimise,
                                restart,
                                learn,
                                seed,
                            };
                            // (the gated / blocking variant with one seed only)
                            if c.valid() && !(restart == RestartCfg::Blocking && seed != 0) {
                                v.push(c)
                            }
                        }
                    }
                }
            }
        }
        v
    }

    pub fn valid(&self) -> bool {
        // (the same holds, much more mildly, for the gated / blocking Luby variant: it is only
        // combined with the default database)
        !(matches!(self.restart, RestartCfg::Constant1 | RestartCfg::Blocking) && self.learn != LearnCfg::Default)
    }

    /// A small slice of configurations exercising each mechanism once.
    pub fn slice() -> Vec<Cfg> {
        vec![
            Cfg::default_cfg(),
            Cfg {
                uip: true,
                minimise: false,
                restart: RestartCfg::Luby1,
                learn: LearnCfg::L0Lbd,
                seed: 1,
            },
            Cfg {
                uip: false,
                minimise: true,
                restart: RestartCfg::None,
                learn: LearnCfg::Default,
                seed: 0,
            },
            Cfg {
                uip: true,
                minimise: true,
                restart: RestartCfg::Constant1,
                learn: LearnCfg::Default,
                seed: 0,
            },
            Cfg {
                uip: true,
                minimise: true,
                restart: RestartCfg::Geometric1,
                learn: LearnCfg::L1Act,
                seed: 42,
            },
            Cfg {
                uip: true,
                minimise: false,
                restart: RestartCfg::None,
                learn: LearnCfg::L2Lbd,
                seed: 1,
            },
        ]
    }

    pub fn describe(&self) -> String {
        format!(
            "{}{}-{:?}-{:?}-s{}",
            if self.uip { "uip" } else { "nolearn" },
            if self.minimise { "+min" } else { "" },
            self.restart,
            self.learn,
            self.seed
        )
    }

    pub fn options(&self, proof_log: ProofLog) -> SolverOptions {
        let aggressive = |gen: SequenceGeneratorType, coef: Option<f64>| RestartOptions {
            sequence_generator_type: gen,
            base_interval: 1,
            min_num_conflicts_before_first_restart: 0,
            lbd_coef: 0.0,
            num_assigned_coef: 1e18,
            num_assigned_window: 5000,
            geometric_coef: coef,
            no_restarts: false,
        };
        let restart_options = match self.restart {
            RestartCfg::None => RestartOptions {
                no_restarts: true,
                ..RestartOptions::default()
            },
            RestartCfg::Default => RestartOptions::default(),
            RestartCfg::Constant1 => aggressive(SequenceGeneratorType::Constant, None),
            RestartCfg::Luby1 => aggressive(SequenceGeneratorType::Luby, None),
            RestartCfg::Geometric1 => aggressive(SequenceGeneratorType::Geometric, Some(2.0)),
            RestartCfg::Blocking => RestartOptions {
                lbd_coef: 1.25,
                num_assigned_coef: 1.0,
                num_assigned_window: 2,
                ..aggressive(SequenceGeneratorType::Luby, None)
            },
        };
        let d = LearningOptions::default();
        let learning_options = match self.learn {
            LearnCfg::Default => d,
            LearnCfg::L0Lbd => LearningOptions {
                limit_num_high_lbd_nogoods: 0,
                lbd_threshold: 0,
                nogood_sorting_strategy: LearnedNogoodSortingStrategy::Lbd,
                ..d
            },
            LearnCfg::L1Act => LearningOptions {
                limit_num_high_lbd_nogoods: 1,
                lbd_threshold: 0,
                nogood_sorting_strategy: LearnedNogoodSortingStrategy::Activity,
                ..d
            },
            LearnCfg::L2Lbd => LearningOptions {
                limit_num_high_lbd_nogoods: 2,
                lbd_threshold: 1,
                nogood_sorting_strategy: LearnedNogoodSortingStrategy::Lbd,
                ..d
            },
        };
        SolverOptions {
            restart_options,
            learning_clause_minimisation: self.minimise,
            random_generator: SmallRng::seed_from_u64(self.seed),
            proof_log,
            conflict_resolver: if self.uip {
                ConflictResolver::UIP
            } else {
                ConflictResolver::NoLearning
            },
            learning_options,
        }
    }
}

// ------------------------------------------------------------------------------------------------
// Posting a model
// ------------------------------------------------------------------------------------------------

pub struct Built {
    pub solver: Solver,
    pub ids: Vec<DomainId>,
    pub lits: Vec<Option<Literal>>,
    /// Result of posting each constraint (None: not attempted because an earlier post failed and
    /// `stop_at_error` was set).
    pub post: Vec<Option<Result<(), ConstraintOperationError>>>,
}

impl Built {
    pub fn first_error(&self) -> Option<usize> {
        self.post
            .iter()
            .position(|r| matches!(r, Some(Err(_))))
    }
    pub fn pred(&self, p: &Pred) -> Predicate {
        to_predicate(self.ids[p.var], p)
    }
    pub fn view(&self, v: &View) -> AffineView<DomainId> {
        self.ids[v.var].scaled(v.a).offset(v.b)
    }
}

pub fn to_predicate(id: DomainId, p: &Pred) -> Predicate {
    match p.kind {
        PredKind::Ge => Predicate::LowerBound {
            domain_id: id,
            lower_bound: p.val,
        },
        PredKind::Le => Predicate::UpperBound {
            domain_id: id,
            upper_bound: p.val,
        },
        PredKind::Eq => Predicate::Equal {
            domain_id: id,
            equality_constant: p.val,
        },
        PredKind::Ne => Predicate::NotEqual {
            domain_id: id,
            not_equal_constant: p.val,
        },
    }
}

/// Translate a solver predicate back to a reference predicate (None: unknown domain, e.g. the
/// dummy domain 0 or an auxiliary variable).
pub fn from_predicate(ids: &[DomainId], p: Predicate) -> Option<Pred> {
    let (d, kind, val) = match p {
        Predicate::LowerBound {
            domain_id,
            lower_bound,
        } => (domain_id, PredKind::Ge, lower_bound),
        Predicate::UpperBound {
            domain_id,
            upper_bound,
        } => (domain_id, PredKind::Le, upper_bound),
        Predicate::Equal {
            domain_id,
            equality_constant,
        } => (domain_id, PredKind::Eq, equality_constant),
        Predicate::NotEqual {
            domain_id,
            not_equal_constant,
        } => (domain_id, PredKind::Ne, not_equal_constant),
    };
    ids.iter()
        .position(|i| *i == d)
        .map(|var| Pred::new(var, kind, val))
}

pub fn new_var(solver: &mut Solver, decl: &VarDecl, name: Option<String>, earlier: &[DomainId]) -> (DomainId, Option<Literal>) {
    match decl.kind {
        VarKind::Interval => {
            let id = match name {
                Some(n) => solver.new_named_bounded_integer(decl.lb(), decl.ub(), n),
                None => solver.new_bounded_integer(decl.lb(), decl.ub()),
            };
            (id, None)
        }
        VarKind::Sparse => {
            let id = match (&decl.raw, name) {
                (Some((list, true)), n) => solver.new_named_sparse_integer(list.clone(), n.unwrap_or_else(|| "raw".to_string())),
                (Some((list, false)), _) => solver.new_sparse_integer(list.clone()),
                (None, Some(n)) => solver.new_named_sparse_integer(decl.values.clone(), n),
                (None, None) => solver.new_sparse_integer(decl.values.clone()),
            };
            (id, None)
        }
        VarKind::Lit => {
            if decl.values == [1] && decl.def.is_none() {
                // the constant literal of the solver
                let l = solver.get_true_literal();
                return (l.get_true_predicate().get_domain(), Some(l));
            }
            let l = match (decl.def, name) {
                // (there is no named form of this call)
                (Some(p), _) => solver.new_literal_for_predicate(to_predicate(earlier[p.var], &p)),
                (None, Some(n)) => solver.new_named_literal(n),
                (None, None) => solver.new_literal(),
            };
            (l.get_true_predicate().get_domain(), Some(l))
        }
    }
}

#[derive(Clone, Copy)]
enum Mode {
    Post,
    Implied(Literal),
    Reify(Literal),
}

struct Ctx<'a> {
    ids: &'a [DomainId],
    lits: &'a [Option<Literal>],
}

impl Ctx<'_> {
    fn lit(&self, l: &Lit) -> Literal {
        let base = self.lits[l.var].expect("literal over a non-literal variable");
        if l.pos {
            base
        } else {
            !base
        }
    }
}

fn apply<C: Constraint>(
    solver: &mut Solver,
    c: C,
    mode: Mode,
    tag: Option<NonZero<u32>>,
) -> Result<(), ConstraintOperationError> {
    let poster = solver.add_constraint(c);
    let poster = match tag {
        Some(t) => poster.with_tag(t),
        None => poster,
    };
    match mode {
        Mode::Post => poster.post(),
        Mode::Implied(l) => poster.implied_by(l),
        Mode::Reify(_) => panic!("harness: reify on a non-negatable constraint"),
    }
}

fn apply_neg<C: NegatableConstraint>(
    solver: &mut Solver,
    c: C,
    negations: u32,
    mode: Mode,
    tag: Option<NonZero<u32>>,
) -> Result<(), ConstraintOperationError> {
    if negations > 0 {
        return apply_neg(solver, c.negation(), negations - 1, mode, tag);
    }
    let poster = solver.add_constraint(c);
    let poster = match tag {
        Some(t) => poster.with_tag(t),
        None => poster,
    };
    match mode {
        Mode::Post => poster.post(),
        Mode::Implied(l) => poster.implied_by(l),
        Mode::Reify(l) => poster.reify(l),
    }
}

fn all_identity(views: &[View]) -> bool {
    views.iter().all(|v| v.is_identity())
}

fn post_leaf<V, F>(
    solver: &mut Solver,
    ctx: &Ctx,
    con: &Con,
    mk: F,
    negations: u32,
    mode: Mode,
    tag: Option<NonZero<u32>>,
) -> Result<(), ConstraintOperationError>
where
    V: IntegerVariable + Clone + std::fmt::Debug + 'static,
    F: Fn(&View) -> V,
{
    let mkv = |vs: &[View]| vs.iter().map(&mk).collect::<Vec<V>>();
    let non_neg = |what: &str| {
        if negations > 0 {
            panic!("harness: negation of non-negatable constraint {what}")
        }
    };
    match con {
        Con::LinLe(t, r) => apply_neg(
            solver,
            constraints::less_than_or_equals(mkv(t), *r),
            negations,
            mode,
            tag,
        ),
        Con::LinEq(t, r) => apply_neg(solver, constraints::equals(mkv(t), *r), negations, mode, tag),
        Con::LinNe(t, r) => apply_neg(
            solver,
            constraints::not_equals(mkv(t), *r),
            negations,
            mode,
            tag,
        ),
        Con::BinEq(a, b) => apply_neg(
            solver,
            constraints::binary_equals(mk(a), mk(b)),
            negations,
            mode,
            tag,
        ),
        Con::BinNe(a, b) => apply_neg(
            solver,
            constraints::binary_not_equals(mk(a), mk(b)),
            negations,
            mode,
            tag,
        ),
        Con::BinLe(a, b) => apply_neg(
            solver,
            constraints::binary_less_than_or_equals(mk(a), mk(b)),
            negations,
            mode,
            tag,
        ),
        Con::BinLt(a, b) => apply_neg(
            solver,
            constraints::binary_less_than(mk(a), mk(b)),
            negations,
            mode,
            tag,
        ),
        Con::Plus(a, b, c) => {
            non_neg("plus");
            apply(solver, constraints::plus(mk(a), mk(b), mk(c)), mode, tag)
        }
        Con::Times(a, b, c) => {
            non_neg("times");
            apply(solver, constraints::times(mk(a), mk(b), mk(c)), mode, tag)
        }
        Con::Div(a, b, c) => {
            non_neg("div");
            apply(solver, constraints::division(mk(a), mk(b), mk(c)), mode, tag)
        }
        Con::Abs(a, b) => {
            non_neg("abs");
            apply(solver, constraints::absolute(mk(a), mk(b)), mode, tag)
        }
        Con::Max(arr, r) => {
            non_neg("max");
            apply(solver, constraints::maximum(mkv(arr), mk(r)), mode, tag)
        }
        Con::Min(arr, r) => {
            non_neg("min");
            apply(solver, constraints::minimum(mkv(arr), mk(r)), mode, tag)
        }
        Con::Element { index, array, rhs } => {
            non_neg("element");
            apply(
                solver,
                constraints::element(mk(index), mkv(array), mk(rhs)),
                mode,
                tag,
            )
        }
        Con::AllDiff(vs) => {
            non_neg("all_different");
            apply(solver, constraints::all_different(mkv(vs)), mode, tag)
        }
        Con::Cumulative {
            starts,
            durations,
            usages,
            cap,
            opts,
        } => {
            non_neg("cumulative");
            let explanation = match opts.explanation {
                0 => CumulativeExplanationType::Naive,
                1 => CumulativeExplanationType::BigStep,
                _ => CumulativeExplanationType::Pointwise,
            };
            let method = match opts.method {
                0 => CumulativePropagationMethod::TimeTablePerPoint,
                1 => CumulativePropagationMethod::TimeTablePerPointIncremental,
                2 => CumulativePropagationMethod::TimeTablePerPointIncrementalSynchronised,
                3 => CumulativePropagationMethod::TimeTableOverInterval,
                4 => CumulativePropagationMethod::TimeTableOverIntervalIncremental,
                _ => CumulativePropagationMethod::TimeTableOverIntervalIncrementalSynchronised,
            };
            let options = CumulativeOptions::new(
                opts.holes,
                explanation,
                opts.sequence,
                method,
                opts.incremental_backtracking,
            );
            if *opts == CumOpts::default_opts() {
                // the plain constructor (default options chosen by the library)
                return apply(
                    solver,
                    constraints::cumulative(mkv(starts), durations.clone(), usages.clone(), *cap),
                    mode,
                    tag,
                );
            }
            apply(
                solver,
                constraints::cumulative_with_options(
                    mkv(starts),
                    durations.clone(),
                    usages.clone(),
                    *cap,
                    options,
                ),
                mode,
                tag,
            )
        }
        _ => unreachable!("not a view-typed leaf: {con}"),
    }
    .map(|_| {
        let _ = ctx;
    })
}

fn post_inner(
    solver: &mut Solver,
    ctx: &Ctx,
    con: &Con,
    negations: u32,
    mode: Mode,
    tag: Option<NonZero<u32>>,
) -> Result<(), ConstraintOperationError> {
    match con {
        Con::Neg(c) => post_inner(solver, ctx, c, negations + 1, mode, tag),
        Con::Implied(l, c) => {
            assert!(
                matches!(mode, Mode::Post) && negations == 0,
                "harness: nested reification"
            );
            post_inner(solver, ctx, c, 0, Mode::Implied(ctx.lit(l)), tag)
        }
        Con::Reified(l, c) => {
            assert!(
                matches!(mode, Mode::Post) && negations == 0,
                "harness: nested reification"
            );
            post_inner(solver, ctx, c, 0, Mode::Reify(ctx.lit(l)), tag)
        }
        Con::PredClause(ps) => {
            assert!(
                matches!(mode, Mode::Post) && negations == 0,
                "harness: add_clause cannot be reified/negated"
            );
            solver.add_clause(ps.iter().map(|p| to_predicate(ctx.ids[p.var], p)))
        }
        Con::ViewClause(ps) => {
            assert!(
                matches!(mode, Mode::Post) && negations == 0,
                "harness: add_clause cannot be reified/negated"
            );
            solver.add_clause(ps.iter().map(|(v, k, c)| {
                let view = ctx.ids[v.var].scaled(v.a).offset(v.b);
                match k {
                    PredKind::Ge => predicate![view >= *c],
                    PredKind::Le => predicate![view <= *c],
                    PredKind::Eq => predicate![view == *c],
                    PredKind::Ne => predicate![view != *c],
                }
            }))
        }
        Con::LitClause(ls) => apply_neg(
            solver,
            constraints::clause(ls.iter().map(|l| ctx.lit(l)).collect::<Vec<_>>()),
            negations,
            mode,
            None,
        ),
        Con::LitConj(ls) => apply_neg(
            solver,
            constraints::conjunction(ls.iter().map(|l| ctx.lit(l)).collect::<Vec<_>>()),
            negations,
            mode,
            None,
        ),
        Con::BoolLinLe(w, ls, r) => {
            assert!(negations == 0);
            apply(
                solver,
                constraints::boolean_less_than_or_equals(
                    w.clone(),
                    ls.iter().map(|l| ctx.lit(l)).collect::<Vec<_>>(),
                    *r,
                ),
                mode,
                tag,
            )
        }
        Con::BoolLinEq(w, ls, rv) => {
            assert!(negations == 0);
            apply(
                solver,
                constraints::boolean_equals(
                    w.clone(),
                    ls.iter().map(|l| ctx.lit(l)).collect::<Vec<_>>(),
                    ctx.ids[*rv],
                ),
                mode,
                tag,
            )
        }
        leaf => {
            let views = leaf.views();
            if all_identity(&views) {
                post_leaf(solver, ctx, leaf, |v: &View| ctx.ids[v.var], negations, mode, tag)
            } else if views.iter().all(|v| ctx.lits[v.var].is_some()) {
                // every view is over a literal: use the literals themselves as 0-1 integer
                // variables, through the most direct transformation the API offers
                post_leaf(
                    solver,
                    ctx,
                    leaf,
                    |v: &View| {
                        let l = ctx.lits[v.var].unwrap();
                        if v.a == 1 {
                            l.offset(v.b)
                        } else if v.b == 0 {
                            l.scaled(v.a)
                        } else {
                            l.scaled(v.a).offset(v.b)
                        }
                    },
                    negations,
                    mode,
                    tag,
                )
            } else {
                post_leaf(
                    solver,
                    ctx,
                    leaf,
                    |v: &View| {
                        let d = ctx.ids[v.var];
                        if v.a == 1 {
                            d.offset(v.b)
                        } else if v.b == 0 {
                            d.scaled(v.a)
                        } else {
                            d.scaled(v.a).offset(v.b)
                        }
                    },
                    negations,
                    mode,
                    tag,
                )
            }
        }
    }
}

/// Post one constraint of the reference model through the public constraint API.
pub fn post_con(
    solver: &mut Solver,
    ids: &[DomainId],
    lits: &[Option<Literal>],
    con: &Con,
    tag: Option<NonZero<u32>>,
) -> Result<(), ConstraintOperationError> {
    let ctx = Ctx { ids, lits };
    let tag = if con.clausal() { None } else { tag };
    post_inner(solver, &ctx, con, 0, Mode::Post, tag)
}

#[derive(Clone, Copy, Debug, PartialEq, Eq)]
pub struct BuildOpts {
    pub named: bool,
    pub tagged: bool,
    pub stop_at_error: bool,
}

impl Default for BuildOpts {
    fn default() -> Self {
        BuildOpts {
            named: false,
            tagged: true,
            stop_at_error: true,
        }
    }
}

pub fn build_with(model: &Model, options: SolverOptions, bo: BuildOpts) -> Built {
    let mut solver = Solver::with_options(options);
    let mut ids = vec![];
    let mut lits = vec![];
    for (i, d) in model.vars.iter().enumerate() {
        let name = if bo.named { Some(format!("x{i}")) } else { None };
        let (id, lit) = new_var(&mut solver, d, name, &ids);
        ids.push(id);
        lits.push(lit);
    }
    let mut post = vec![];
    let mut failed = false;
    for (i, c) in model.cons.iter().enumerate() {
        if failed && bo.stop_at_error {
            post.push(None);
            continue;
        }
        let tag = if bo.tagged {
            NonZero::new(i as u32 + 1)
        } else {
            None
        };
        let r = post_con(&mut solver, &ids, &lits, c, tag);
        if r.is_err() {
            failed = true;
        }
        post.push(Some(r));
    }
    Built {
        solver,
        ids,
        lits,
        post,
    }
}

pub fn build(model: &Model, cfg: &Cfg) -> Built {
    build_with(model, cfg.options(ProofLog::default()), BuildOpts::default())
}

// ------------------------------------------------------------------------------------------------
// Termination (fault injector)
// ------------------------------------------------------------------------------------------------

#[derive(Debug, Clone)]
pub struct CountingTermination {
    /// number of polls seen so far (shared so that it survives moves)
    pub polls: Rc<RefCell<u64>>,
    /// `should_stop` returns true from this poll index on (None: never)
    pub stop_from: Option<u64>,
    /// if set, true exactly at `stop_from` and false afterwards
    pub once: bool,
}

impl CountingTermination {
    pub fn never() -> Self {
        CountingTermination {
            polls: Rc::new(RefCell::new(0)),
            stop_from: None,
            once: false,
        }
    }
    pub fn from(k: u64, once: bool) -> Self {
        CountingTermination {
            polls: Rc::new(RefCell::new(0)),
            stop_from: Some(k),
            once,
        }
    }
    pub fn count(&self) -> u64 {
        *self.polls.borrow()
    }
}

impl TerminationCondition for CountingTermination {
    fn should_stop(&mut self) -> bool {
        let mut p = self.polls.borrow_mut();
        let idx = *p;
        *p += 1;
        match self.stop_from {
            None => false,
            Some(k) => {
                if self.once {
                    idx == k
                } else {
                    idx >= k
                }
            }
        }
    }
}

// ------------------------------------------------------------------------------------------------
// Branchers
// ------------------------------------------------------------------------------------------------

pub const NUM_VAR_SELECTORS: usize = 14;
pub const VAR_SELECTOR_NAMES: [&str; NUM_VAR_SELECTORS] = [
    "InputOrder",
    "FirstFail",
    "AntiFirstFail",
    "Smallest",
    "Largest",
    "MaxRegret",
    "AntiFirstFail+InOrder(max)",
    "Occurrence",
    "ProportionalDomainSize",
    "RandomSelector",
    "FirstFail+RandomTie",
    "Largest+RandomTie",
    "MaxRegret+RandomTie",
    "Smallest+RandomTie",
];

pub const NUM_VAL_SELECTORS: usize = 14;
pub const VAL_SELECTOR_NAMES: [&str; NUM_VAL_SELECTORS] = [
    "InDomainMin",
    "InDomainMax",
    "InDomainMedian",
    "InDomainMiddle",
    "InDomainSplit",
    "ReverseInDomainSplit",
    "InDomainInterval",
    "InDomainRandom",
    "InDomainSplitRandom",
    "OutDomainMin",
    "OutDomainMax",
    "OutDomainMedian",
    "OutDomainRandom",
    "RandomSplitter",
];

pub fn var_selector(i: usize, vars: &[DomainId], seed: u64) -> DynamicVariableSelector<DomainId> {
    let occ: Vec<u32> = (0..vars.len() as u32).map(|k| (k * 7 + 3) % 4).collect();
    let b: Box<dyn VariableSelector<DomainId>> = match i {
        0 => Box::new(InputOrder::new(vars)),
        1 => Box::new(FirstFail::new(vars)),
        2 => Box::new(AntiFirstFail::new(vars)),
        3 => Box::new(Smallest::new(vars)),
        4 => Box::new(Largest::new(vars)),
        5 => Box::new(MaxRegret::new(vars)),
        // MostConstrained::new returns a type with a private parameter (MostConstrainedValue): it
        // cannot be constructed through the public API (and the FlatZinc front end has a todo!()
        // for it), so slot 6 is AntiFirstFail with maximum-direction tie breaking.
        6 => Box::new(AntiFirstFail::with_tie_breaker(
            vars,
            InOrderTieBreaker::new(Direction::Maximum),
        )),
        7 => Box::new(Occurrence::new(vars, &occ)),
        8 => Box::new(ProportionalDomainSize::new(vars)),
        9 => Box::new(RandomSelector::new(vars.iter().copied())),
        10 => Box::new(FirstFail::with_tie_breaker(
            vars,
            RandomTieBreaker::new(
                Direction::Minimum,
                Box::new(SmallRng::seed_from_u64(seed)),
            ),
        )),
        11 => Box::new(Largest::with_tie_breaker(
            vars,
            RandomTieBreaker::new(
                Direction::Maximum,
                Box::new(SmallRng::seed_from_u64(seed)),
            ),
        )),
        12 => Box::new(MaxRegret::with_tie_breaker(
            vars,
            RandomTieBreaker::new(
                Direction::Maximum,
                Box::new(SmallRng::seed_from_u64(seed)),
            ),
        )),
        13 => Box::new(Smallest::with_tie_breaker(
            vars,
            RandomTieBreaker::new(
                Direction::Minimum,
                Box::new(SmallRng::seed_from_u64(seed ^ 7)),
            ),
        )),
        _ => panic!("harness: no such variable selector"),
    };
    DynamicVariableSelector::new(b)
}

pub fn val_selector(i: usize) -> DynamicValueSelector<DomainId> {
    let b: Box<dyn ValueSelector<DomainId>> = match i {
        0 => Box::new(InDomainMin),
        1 => Box::new(InDomainMax),
        2 => Box::new(InDomainMedian),
        3 => Box::new(InDomainMiddle),
        4 => Box::new(InDomainSplit),
        5 => Box::new(ReverseInDomainSplit),
        6 => Box::new(InDomainInterval),
        7 => Box::new(InDomainRandom),
        8 => Box::new(InDomainSplitRandom),
        9 => Box::new(OutDomainMin),
        10 => Box::new(OutDomainMax),
        11 => Box::new(OutDomainMedian),
        12 => Box::new(OutDomainRandom),
        13 => Box::new(RandomSplitter),
        _ => panic!("harness: no such value selector"),
    };
    DynamicValueSelector::new(b)
}

pub type IndepBrancher = IndependentVariableValueBrancher<
    DomainId,
    DynamicVariableSelector<DomainId>,
    DynamicValueSelector<DomainId>,
>;

pub fn indep(var_sel: usize, val_sel: usize, vars: &[DomainId], seed: u64) -> IndepBrancher {
    IndependentVariableValueBrancher::new(var_selector(var_sel, vars, seed), val_selector(val_sel))
}

#[derive(Clone, Debug, PartialEq, Eq, Hash)]
pub enum BrancherSpec {
    Default,
    Indep(usize, usize),
    /// DynamicBrancher over two independent branchers, each responsible for half the variables
    DynamicSplit(usize, usize),
    /// AlternatingBrancher(strategy index 0..4, other = Indep)
    Alternating(usize, usize, usize),
    Scripted(Vec<u16>),
}

impl BrancherSpec {
    pub fn describe(&self) -> String {
        match self {
            BrancherSpec::Default => "Default".into(),
            BrancherSpec::Indep(a, b) => {
                format!("{}/{}", VAR_SELECTOR_NAMES[*a], VAL_SELECTOR_NAMES[*b])
            }
            BrancherSpec::DynamicSplit(a, b) => format!(
                "Dynamic[{}/{}]",
                VAR_SELECTOR_NAMES[*a], VAL_SELECTOR_NAMES[*b]
            ),
            BrancherSpec::Alternating(s, a, b) => format!(
                "Alternating{}[{}/{}]",
                s, VAR_SELECTOR_NAMES[*a], VAL_SELECTOR_NAMES[*b]
            ),
            BrancherSpec::Scripted(s) => format!("Scripted{:?}", s),
        }
    }

    /// A slice of branchers used by the general sweeps.
    pub fn slice() -> Vec<BrancherSpec> {
        vec![
            BrancherSpec::Default,
            BrancherSpec::Indep(0, 0),
            BrancherSpec::Indep(1, 2),
            BrancherSpec::Indep(4, 4),
            BrancherSpec::Indep(3, 9),
            BrancherSpec::Indep(9, 13),
        ]
    }

    pub fn all_indep() -> Vec<BrancherSpec> {
        let mut v = vec![];
        for a in 0..NUM_VAR_SELECTORS {
            for b in 0..NUM_VAL_SELECTORS {
                v.push(BrancherSpec::Indep(a, b));
            }
        }
        v
    }
}

/// A computation that needs *some* brancher (rank-2 polymorphism through a trait).
pub trait WithBrancher {
    type Out;
    fn call<B: Brancher>(self, solver: &mut Solver, brancher: &mut B) -> Self::Out;
}

pub fn with_brancher<W: WithBrancher>(
    spec: &BrancherSpec,
    solver: &mut Solver,
    vars: &[DomainId],
    seed: u64,
    w: W,
) -> W::Out {
    match spec {
        BrancherSpec::Default => {
            let mut b = solver.default_brancher();
            w.call(solver, &mut b)
        }
        BrancherSpec::Indep(a, v) => {
            let mut b = indep(*a, *v, vars, seed);
            w.call(solver, &mut b)
        }
        BrancherSpec::DynamicSplit(a, v) => {
            let mid = vars.len() / 2;
            let b1: Box<dyn Brancher> = Box::new(indep(*a, *v, &vars[..mid], seed));
            let b2: Box<dyn Brancher> = Box::new(indep(*a, *v, &vars[mid..], seed));
            let mut b = DynamicBrancher::new(vec![b1, b2]);
            w.call(solver, &mut b)
        }
        BrancherSpec::Alternating(s, a, v) => {
            let strategy = match s {
                0 => AlternatingStrategy::EverySolution,
                1 => AlternatingStrategy::EveryOtherSolution,
                2 => AlternatingStrategy::SwitchToDefaultAfterFirstSolution,
                _ => AlternatingStrategy::EveryRestart,
            };
            let other = indep(*a, *v, vars, seed);
            let mut b = AlternatingBrancher::new(solver, other, strategy);
            w.call(solver, &mut b)
        }
        BrancherSpec::Scripted(script) => {
            let mut b = ScriptedBrancher::new(vars.to_vec(), script.clone());
            w.call(solver, &mut b)
        }
    }
}

/// The controlled scheduler: at every decision point it builds a canonical menu of undecided
/// predicates from the public `SelectionContext` and takes the choice prescribed by the script
/// (0 beyond the end of the script). It records the menu size of every decision point so that the
/// explorer can enumerate the alternatives.
#[derive(Debug)]
pub struct ScriptedBrancher {
    vars: Vec<DomainId>,
    script: Vec<u16>,
    pub log: Rc<RefCell<ScriptLog>>,
}

#[derive(Debug, Default, Clone)]
pub struct ScriptLog {
    /// menu size at every decision point, in order
    pub menu_sizes: Vec<u16>,
    /// the choice taken at every decision point
    pub choices: Vec<u16>,
    pub decisions: Vec<Predicate>,
    pub out_of_range: bool,
}

impl ScriptedBrancher {
    pub fn new(vars: Vec<DomainId>, script: Vec<u16>) -> Self {
        ScriptedBrancher {
            vars,
            script,
            log: Rc::new(RefCell::new(ScriptLog::default())),
        }
    }

    pub fn menu(&self, context: &SelectionContext) -> Vec<Predicate> {
        let mut menu = vec![];
        for &x in &self.vars {
            if context.is_integer_fixed(x) {
                continue;
            }
            let lb = context.lower_bound(x);
            let ub = context.upper_bound(x);
            // split decisions
            let mid = lb + (ub - lb) / 2;
            menu.push(Predicate::UpperBound {
                domain_id: x,
                upper_bound: mid,
            });
            menu.push(Predicate::LowerBound {
                domain_id: x,
                lower_bound: mid + 1,
            });
            // assignments to the bounds
            menu.push(Predicate::Equal {
                domain_id: x,
                equality_constant: lb,
            });
            menu.push(Predicate::Equal {
                domain_id: x,
                equality_constant: ub,
            });
            // interior values: assignment and removal
            for v in lb + 1..ub {
                if context.contains(x, v) {
                    menu.push(Predicate::Equal {
                        domain_id: x,
                        equality_constant: v,
                    });
                }
            }
            for v in lb..=ub {
                if context.contains(x, v) {
                    menu.push(Predicate::NotEqual {
                        domain_id: x,
                        not_equal_constant: v,
                    });
                }
            }
        }
        // keep only undecided predicates, without duplicates
        let mut out: Vec<Predicate> = vec![];
        for p in menu {
            if !context.is_predicate_assigned(p) && !out.contains(&p) {
                out.push(p);
            }
        }
        out
    }
}

impl Brancher for ScriptedBrancher {
    fn next_decision(&mut self, context: &mut SelectionContext) -> Option<Predicate> {
        let menu = self.menu(context);
        if menu.is_empty() {
            return None;
        }
        let mut log = self.log.borrow_mut();
        let point = log.menu_sizes.len();
        let mut choice = self.script.get(point).copied().unwrap_or(0);
        if choice as usize >= menu.len() {
            log.out_of_range = true;
            choice = 0;
        }
        log.menu_sizes.push(menu.len() as u16);
        log.choices.push(choice);
        let p = menu[choice as usize];
        log.decisions.push(p);
        Some(p)
    }

    fn subscribe_to_events(&self) -> Vec<BrancherEvent> {
        vec![]
    }
}
