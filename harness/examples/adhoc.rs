use pumpkin_solver::constraints;
use pumpkin_solver::options::CumulativeExplanationType;
use pumpkin_solver::options::CumulativeOptions;
use pumpkin_solver::options::CumulativePropagationMethod;
use pumpkin_solver::results::solution_iterator::IteratedSolution;
use pumpkin_solver::termination::Indefinite;
use pumpkin_solver::Solver;

fn solve(doms: &[(i32, i32)], durs: &[i32], uses: &[i32], cap: i32, options: CumulativeOptions) -> u64 {
    let mut solver = Solver::default();
    let vars: Vec<_> = doms.iter().map(|d| solver.new_bounded_integer(d.0, d.1)).collect();
    let r = solver
        .add_constraint(constraints::cumulative_with_options(vars.clone(), durs.to_vec(), uses.to_vec(), cap, options))
        .post();
    if r.is_err() {
        return 0;
    }
    let mut termination = Indefinite;
    let mut brancher = solver.default_brancher();
    let mut it = solver.get_solution_iterator(&mut brancher, &mut termination);
    let mut count = 0;
    loop {
        match it.next_solution() {
            IteratedSolution::Solution(..) => count += 1,
            _ => break,
        }
    }
    count
}

fn brute(doms: &[(i32, i32)], durs: &[i32], uses: &[i32], cap: i32) -> u64 {
    let n = doms.len();
    let mut cur: Vec<i32> = doms.iter().map(|d| d.0).collect();
    let mut count = 0;
    loop {
        let lo = doms.iter().map(|d| d.0).min().unwrap();
        let hi = doms.iter().zip(durs).map(|(d, p)| d.1 + p).max().unwrap();
        if (lo..=hi).all(|t| (0..n).filter(|&i| cur[i] <= t && t < cur[i] + durs[i]).map(|i| uses[i]).sum::<i32>() <= cap) {
            count += 1;
        }
        let mut k = n;
        loop {
            if k == 0 {
                return count;
            }
            k -= 1;
            if cur[k] < doms[k].1 {
                cur[k] += 1;
                break;
            }
            cur[k] = doms[k].0;
        }
    }
}

fn main() {
    // args: "lo,hi,dur,use;lo,hi,dur,use;..." cap
    let spec = std::env::args().nth(1).unwrap();
    if spec == "sweep4" {
        sweep4();
        return;
    }
    if spec == "shrink" {
        shrink();
        return;
    }
    if spec == "sweep" {
        sweep();
        return;
    }
    let cap: i32 = std::env::args().nth(2).unwrap().parse().unwrap();
    let mut doms = vec![];
    let mut durs = vec![];
    let mut uses = vec![];
    for t in spec.split(';') {
        let v: Vec<i32> = t.split(',').map(|x| x.parse().unwrap()).collect();
        doms.push((v[0], v[1]));
        durs.push(v[2]);
        uses.push(v[3]);
    }
    let expected = brute(&doms, &durs, &uses, cap);
    let methods = [
        CumulativePropagationMethod::TimeTablePerPoint,
        CumulativePropagationMethod::TimeTablePerPointIncremental,
        CumulativePropagationMethod::TimeTablePerPointIncrementalSynchronised,
        CumulativePropagationMethod::TimeTableOverInterval,
        CumulativePropagationMethod::TimeTableOverIntervalIncremental,
        CumulativePropagationMethod::TimeTableOverIntervalIncrementalSynchronised,
    ];
    let expls = [CumulativeExplanationType::Naive, CumulativeExplanationType::BigStep, CumulativeExplanationType::Pointwise];
    let mut bad = 0;
    for (mi, m) in methods.iter().enumerate() {
        for (ei, e) in expls.iter().enumerate() {
            for bits in 0..8 {
                let (holes, seq, incr) = (bits & 1 != 0, bits & 2 != 0, bits & 4 != 0);
                let o = CumulativeOptions::new(holes, *e, seq, *m, incr);
                let r = std::panic::catch_unwind(|| solve(&doms, &durs, &uses, cap, o));
                if r.as_ref().ok() != Some(&expected) {
                    bad += 1;
                    println!("method={mi} expl={ei} holes={holes} seq={seq} incr={incr} -> {:?} expected {expected}", r.as_ref().ok());
                }
            }
        }
    }
    println!("bad={bad}");
}

fn sweep() {
    let n: usize = std::env::args().nth(2).unwrap().parse().unwrap();
    let methods = [
        CumulativePropagationMethod::TimeTablePerPoint,
        CumulativePropagationMethod::TimeTablePerPointIncremental,
        CumulativePropagationMethod::TimeTablePerPointIncrementalSynchronised,
    ];
    let expls = [CumulativeExplanationType::Naive, CumulativeExplanationType::BigStep, CumulativeExplanationType::Pointwise];
    let per = 3 * 3 * 3 * 2u64;
    let total = per.pow(n as u32);
    let mut found = 0;
    std::panic::set_hook(Box::new(|_| {}));
    for i in 0..total {
        let mut x = i;
        let (mut doms, mut durs, mut uses) = (vec![], vec![], vec![]);
        for _ in 0..n {
            let lb = (x % 3) as i32 - 2;
            x /= 3;
            let w = 1 + (x % 3) as i32;
            x /= 3;
            durs.push(1 + (x % 3) as i32);
            x /= 3;
            uses.push(1 + (x % 2) as i32);
            x /= 2;
            doms.push((lb, lb + w));
        }
        let expected = brute(&doms, &durs, &uses, 2);
        for (mi, m) in methods.iter().enumerate() {
            for (ei, e) in expls.iter().enumerate() {
                for bits in 0..4 {
                    let (holes, incr) = (bits & 1 != 0, bits & 2 != 0);
                    let o = CumulativeOptions::new(holes, *e, true, *m, incr);
                    let r = std::panic::catch_unwind(|| solve(&doms, &durs, &uses, 2, o));
                    if r.as_ref().ok() != Some(&expected) {
                        found += 1;
                        println!("doms={doms:?} durs={durs:?} uses={uses:?} method={mi} expl={ei} holes={holes} incr={incr} -> {:?} expected {expected}", r.as_ref().ok());
                        if found > 20 {
                            return;
                        }
                    }
                }
            }
        }
    }
    println!("swept {total}, found {found}");
}

fn fails(doms: &[(i32, i32)], durs: &[i32], uses: &[i32], cap: i32) -> bool {
    let expected = brute(doms, durs, uses, cap);
    for m in [CumulativePropagationMethod::TimeTablePerPoint, CumulativePropagationMethod::TimeTablePerPointIncremental, CumulativePropagationMethod::TimeTablePerPointIncrementalSynchronised] {
        for e in [CumulativeExplanationType::Naive, CumulativeExplanationType::BigStep, CumulativeExplanationType::Pointwise] {
            for bits in 0..4 {
                let o = CumulativeOptions::new(bits & 1 != 0, e, true, m, bits & 2 != 0);
                let r = std::panic::catch_unwind(|| solve(doms, durs, uses, cap, o));
                if r.as_ref().ok() != Some(&expected) {
                    return true;
                }
            }
        }
    }
    false
}

fn shrink() {
    std::panic::set_hook(Box::new(|_| {}));
    let mut doms = vec![(-2, -1), (-1, 5), (3, 9), (1, 7), (-1, 4)];
    let mut durs = vec![1, 2, 3, 1, 3];
    let mut uses = vec![2, 1, 1, 2, 2];
    let cap = 2;
    assert!(fails(&doms, &durs, &uses, cap));
    loop {
        let mut changed = false;
        for i in 0..doms.len() {
            for k in 0..4 {
                let (mut d, mut p, mut u) = (doms.clone(), durs.clone(), uses.clone());
                match k {
                    0 => d[i].0 += 1,
                    1 => d[i].1 -= 1,
                    2 => p[i] -= 1,
                    _ => u[i] -= 1,
                }
                if d[i].0 > d[i].1 || p[i] < 0 || u[i] < 0 {
                    continue;
                }
                if fails(&d, &p, &u, cap) {
                    doms = d;
                    durs = p;
                    uses = u;
                    changed = true;
                    println!("doms={doms:?} durs={durs:?} uses={uses:?}");
                }
            }
        }
        if !changed {
            break;
        }
    }
}

fn sweep4() {
    std::panic::set_hook(Box::new(|_| {}));
    let per = 4 * 3 * 2 * 2u64;
    let n = 3;
    let total = per.pow(n as u32);
    let mut found = 0;
    for i in 0..total {
        let mut x = i;
        let (mut doms, mut durs, mut uses) = (vec![(-1, -1)], vec![1], vec![2]);
        for _ in 0..n {
            let lb = (x % 4) as i32 - 1;
            x /= 4;
            let w = 2 + (x % 3) as i32;
            x /= 3;
            durs.push(1 + (x % 2) as i32);
            x /= 2;
            uses.push(1 + (x % 2) as i32);
            x /= 2;
            doms.push((lb, lb + w));
        }
        let expected = brute(&doms, &durs, &uses, 2);
        for e in [CumulativeExplanationType::Naive, CumulativeExplanationType::BigStep] {
            let o = CumulativeOptions::new(false, e, true, CumulativePropagationMethod::TimeTablePerPointIncremental, false);
            let r = std::panic::catch_unwind(|| solve(&doms, &durs, &uses, 2, o));
            if r.as_ref().ok() != Some(&expected) {
                found += 1;
                println!("doms={doms:?} durs={durs:?} uses={uses:?} {e:?} -> {:?} expected {expected}", r.as_ref().ok());
                if found > 10 {
                    return;
                }
            }
        }
    }
    println!("swept {total}, found {found}");
}
