import json,sys,glob,collections
d=collections.defaultdict(list)
for f in sorted(glob.glob(f'/verif/replays/{sys.argv[1]}/*.json')):
    j=json.load(open(f)); d[j['sig']].append(j)
for sig,l in d.items():
    print(f'== {sig} ({len(l)})')
    for j in l[:int(sys.argv[2]) if len(sys.argv)>2 else 3]:
        print('   ',j['idx'],j['case'][:230]); print('      ->',j['message'][:300])
