#!/usr/bin/env python3
"""Writes /verif/known_c06_inputs.json (hashes of the case descriptions on which the known finding
'hint list omits a unit nogood' shows on the current tree) from recording runs:
  rm -rf .build/c06rec; mkdir -p .build/c06rec
  PV_C06_RECORD=/verif/.build/c06rec ./check C06 quick; PV_C06_RECORD=/verif/.build/c06rec ./check C06 thorough
  python3 tools/gen_c06_inputs.py
Only to be run on a tree on which the listed finding is the only cause of this signature."""
import glob, json
out = {}
for f in glob.glob('/verif/.build/c06rec/*.txt'):
    for line in open(f):
        sig, h = line.rstrip('\n').split('\t')
        out.setdefault(sig, set()).add(int(h))
out = {k: sorted(v) for k, v in out.items()}
json.dump(out, open('/verif/known_c06_inputs.json', 'w'), separators=(',', ':'))
print({k: len(v) for k, v in out.items()})
