#!/bin/bash
# usage: tools/try_seed.sh <patch.diff> <ID> [<ID>...]   (tier via TIER=quick|thorough)
# Applies a seeded change to /repo, runs the named checks, reverts. Evidence written during the
# mutant run is restored from git afterwards.
set -u
patch=$1; shift
tier=${TIER:-quick}
cd /repo || exit 2
if ! git diff --quiet; then echo "/repo has uncommitted changes"; exit 2; fi
git apply "$patch" || exit 2
for id in "$@"; do
  out=$(/verif/check "$id" "$tier" 2>&1); rc=$?
  echo "== $id rc=$rc"
  echo "$out" | grep -E "^(VIOLATION|KNOWN-FINDING|$id $tier)" | cut -c1-260 | head -12
done
git -C /repo checkout -- .
# rebuild the harness against the clean tree so that no stale mutant binary is left behind
/verif/check C19 quick > /dev/null 2>&1
git -C /verif checkout -- evidence 2>/dev/null
git -C /verif clean -fdq replays 2>/dev/null
exit 0
