#!/usr/bin/env python3
# usage: uncovered.py <lcov> <file-substring>  -> prints uncovered line ranges with source
import sys
lcov, pat = sys.argv[1], sys.argv[2]
cur=None; data={}
for l in open(lcov):
    l=l.strip()
    if l.startswith('SF:'): cur=l[3:]; data[cur]=[]
    elif l.startswith('DA:'):
        a,b=l[3:].split(',')[:2]; data[cur].append((int(a),int(b)))
for f,d in data.items():
    if pat not in f: continue
    src=open(f).read().split('\n')
    unc=[a for a,b in d if b==0]
    # group
    groups=[]; 
    for a in unc:
        if groups and a-groups[-1][1]<=1: groups[-1][1]=a
        else: groups.append([a,a])
    print('==',f,len(unc),'uncovered of',len(d))
    for s,e in groups:
        print(f'  -- {s}-{e}')
        for i in range(s,min(e,s+12)+1):
            print('     ',i,src[i-1][:130])
