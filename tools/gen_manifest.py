#!/usr/bin/env python3
"""Generates /verif/MANIFEST.json from the table below (kept next to the code so that the
manifest never drifts from what ./check implements)."""
import json, subprocess

ALL = [f"C{i:02d}" for i in range(1, 21)]

CHECKS = {
 "C01": dict(cat="exploration", engine="model-sweep", technique="bounded exhaustive enumeration of models x configurations x branchers on the real solver, brute-force reference oracle",
   text="Every model of the bounded spaces M1-M12 (single constraints, pairs, conflict-rich triples, clause-rich models, the clause space, literals defined by predicates, clauses over views, medium models, search problems with hundreds of conflicts, raw sparse lists, literals as 0-1 integer variables through Literal::offset/scaled, constant literals) and of the decision-profile cumulative sets is solved through every solution-producing API (satisfy, iterator, assumptions, both optimisation procedures incl. callbacks) under a slice of configurations and branchers; each returned assignment is checked against the reference semantics. Exhaustive within the stated bounds.",
   note="small-scope hypothesis (<=5 variables, <=4 values); reference model self-checked; division denominators exclude 0", ref="DESIGN.md §4 C01"),
 "C02": dict(cat="exploration", engine="model-sweep", technique="bounded exhaustive enumeration + learned-nogood entailment check through the tap",
   text="Same enumeration; post errors and Unsatisfiable verdicts are compared with brute force, Unknown never occurs, and every nogood learned (observed through the tap, in satisfy runs and in every step of a complete iteration) must be entailed by the model (plus blocking clauses so far).",
   note="as C01; the tap only copies what the solver computed", ref="DESIGN.md §4 C02"),
 "C03": dict(cat="exploration", engine="model-sweep", technique="bounded exhaustive enumeration, complete iteration compared with brute-force solution set",
   text="Complete iteration of every model under each configuration/brancher yields exactly the reference solution set, each solution once; every prefix is checked.",
   note="as C01", ref="DESIGN.md §4 C03"),
 "C04": dict(cat="exploration", engine="model-sweep", technique="bounded exhaustive enumeration of models x objective views x directions x procedures, brute-force optimum",
   text="Strides of M1/M2/M3/M5 and scheduling models (cumulative task sets incl. negative start times under 4 option sets) x every variable x views (negative scale, offsets) x min/max x LinearSatUnsat/LinearUnsatSat x configurations/branchers: Optimal(s) is a solution with the brute-force optimal value, Unsatisfiable iff no solution, callbacks only see solutions.",
   note="small-scope hypothesis; termination condition never fires", ref="DESIGN.md §4 C04"),
 "C05": dict(cat="exploration", engine="model-sweep", technique="bounded exhaustive enumeration of assumption lists and solve histories, brute-force oracle for results and cores",
   text="All assumption lists up to length 2 (3 thorough) over a predicate alphabet incl. out-of-domain and hole values, with and without (double) core extraction, followed by a plain satisfy; plus 2-step assumption histories on one solver. Solutions satisfy model+assumptions, unsat-under-assumptions only if truly so, cores are implied by the assumptions and inconsistent with the model, assumptions are not retained.",
   note="own definition of a directly contradictory pair (no integer satisfies both)", ref="DESIGN.md §4 C05"),
 "C06": dict(cat="exploration", engine="proof-checker", technique="bounded exhaustive enumeration of proof-producing runs, each proof checked by an independent DRCP checker (exhaustive semantic check of inferences, reverse constraint propagation for nogoods)",
   text="Strides of M1/M3/M4/M5/M6 (incl. literal variables and literals defined by predicates) x {satisfy, min/max with both procedures} x {scaffold, full, hinted} x minimisation on/off x 2 branchers with named variables and one tag per constraint; own .drcp/.lits parsers; every tagged inference follows from the single reference constraint by exhaustion; untagged inferences from one constraint (with the root facts established by earlier unit nogoods) / earlier nogood / domains (objective cuts admitted only at incumbent values); every nogood is RCP-derivable (from its hints in hinted proofs; the one known finding about omitted unit-nogood hints is matched by signature and by listed inputs) and entailed by the reference solutions; UNSAT preceded by the empty nogood; optimality conclusion is the true dual bound.",
   note="scaffold proofs of LinearSatUnsat runs do not contain the objective cuts, so their nogoods are only checked structurally", ref="DESIGN.md §4 C06"),
 "C13": dict(cat="exploration", engine="fzn-cli", technique="grammar-bounded exhaustive enumeration of FlatZinc texts run through the real binary, independent evaluator of the builtins",
   text="Every handled constraint name (110+ instantiations), single and paired, x goals x flags (-a, -f, optimisation strategy), declaration variants (aliases and alias classes, fixed values, set domains incl. unsorted / repeated / interval-like literals, arrays, parameters, zero coefficients), search annotations; the printed blocks are compared with a brute-force evaluation of the standard FlatZinc semantics.",
   note="constructs for which the front end has todo!() are not generated", ref="DESIGN.md §4 C13"),
 "C14": dict(cat="fault_enumeration", engine="dimacs", technique="exhaustive enumeration of small CNF formulas x file layouts (deviation-bounded) x all 1-/2-cut chunkings of the byte stream (short reads) on the repository's own parser; CLI end-to-end with own RUP checker",
   text="All formulas within the bounds as ordered literal sequences; every layout with <=2 non-default separators, prefixes/suffixes; every 1- and 2-cut chunking for layouts with <=1 deviation must parse to exactly the formula; verdict and model vs brute force; CLI proofs checked by a forward RUP checker, also on structured formulas of up to 20 variables whose refutation needs learned lemmas and on formulas renamed to variable indices beyond 2^16.",
   note="headers spelled canonically; parsers/dimacs.rs is compiled into the harness via #[path]", ref="DESIGN.md §4 C14"),
 "C15": dict(cat="exploration", engine="wcnf-cli", technique="bounded exhaustive enumeration of WCNF instances x both encodings x seeds through the real binary, brute-force optimum",
   text="WCNF instances over <=3 variables (hard parts incl. unsatisfiable, unit/empty/duplicate/complementary/root-decided soft clauses, several weights) x 2 encodings x 2 seeds: s/o/v lines vs brute force; encodings agree; termination within 2 s.",
   note="cardinality-network encoding has open known findings on weighted instances", ref="DESIGN.md §4 C15"),
 "C19": dict(cat="exploration", engine="drcp-roundtrip", technique="bounded exhaustive enumeration of step sequences / literal definitions / atomics, structural comparison after write->read",
   text="All step sequences up to length 2 (3) over a 50-step alphabet x conclusions, literal definition files over an alphabet of 90 atomics, double negation of every atomic.",
   note="text format only (binary writer is todo!())", ref="DESIGN.md §4 C19"),
 "C20": dict(cat="exploration", engine="twin-run", technique="bounded enumeration of (input, options, seed); each executed twice (library: same process; CLI: two fresh processes) and compared byte for byte",
   text="Library runs (iteration / satisfy / optimise with full or hinted proofs) and CLI runs (CNF, WCNF, FlatZinc with statistics and proofs) are executed twice; solution sequences, counters, stdout and proof/.lits bytes must be identical.",
   note="hash keys and wall clock are not enumerable: two independent executions per case", ref="DESIGN.md §4 C20"),
 "C07": dict(cat="exploration", engine="config-product", technique="full product of solver options x branchers on conflict-rich models, brute-force reference",
   text="All 186 valid option combinations x branchers x conflict-rich models: verdict, complete solution set and optimum each equal the reference; counters show how often restarts, deletion, id reuse, no-learning backtracking actually fired.",
   note="finite option alphabets chosen to make each mechanism fire on small models", ref="DESIGN.md §4 C07"),
 "C09": dict(cat="exploration", engine="reif-sweep", technique="bounded exhaustive enumeration of (constraint incl. Boolean linear constraints with weights of both signs, mode, literal status, fixing order) + scripted exploration with explanation tap",
   text="Every constraint instance x {implied_by, reify, negation, negated reify} x literal status (free/true/false before/after, negative literal) x fixing orders; the solution set over (variables, literal) equals implication / equivalence / complement semantics; all 6 cumulative methods (144 options in thorough) under reification.",
   note="only NegatableConstraint implementations are negated / fully reified", ref="DESIGN.md §4 C09"),
 "C10": dict(cat="model_checking", engine="history-explorer", technique="explicit-state search over all API call histories up to a depth on the real Solver (states = history prefixes), reference model of the accumulated constraints",
   text="All sequences of 4 (5 thorough) operations over a 34-operation API alphabet (core extraction done twice on the same result) on one solver; after every operation: no panic/hang and the result equals the reference for everything accumulated so far (incl. blocking clauses of iterated solutions).",
   note="no state merging (a Solver can neither be cloned nor hashed); fresh default brancher per solve", ref="DESIGN.md §4 C10"),
 "C11": dict(cat="fault_enumeration", engine="interrupt-enumerator", technique="exhaustive enumeration of the poll index at which the termination condition fires (sticky and one-shot), for satisfy / iteration / both optimisation procedures in the library, and of the poll at which the time budget of the command-line binary (built with the hook) fires, for FlatZinc / DIMACS / WCNF inputs",
   text="For every case the polls N of the uninterrupted run are counted and the run is repeated for every k in 0..=N with the condition firing at poll k; the result is Unknown / best-so-far (a solution) / the correct definitive answer, and the same solver answers correctly when asked again without interruption. Front ends: for every k until a run is no longer interrupted the output of the binary makes no wrong definitive claim (solutions valid, ========== / OPTIMUM FOUND / UNSATISFIABLE only when true).",
   note="runs with more than 80 (400) polls are skipped and counted", ref="DESIGN.md §4 C11"),
 "C12": dict(cat="exploration", engine="prefix-sweep", technique="bounded exhaustive enumeration of models x posting permutations x prefixes, brute-force bounds",
   text="After every post of every permutation of every model the reported bounds of every variable and of 6 views and the literal values enclose all solutions of the prefix model, lie in the declared range and only tighten.",
   note="sequence stops at the first reported infeasibility", ref="DESIGN.md §4 C12"),
 "C16": dict(cat="exploration", engine="boundary-sweep", technique="exhaustive enumeration over a finite boundary alphabet of the 32-bit range, i128 reference",
   text="Windows of <=3 values at 15 (23) anchors of the i32 range, coefficients and right-hand sides from the same alphabet; linear (1-2 terms), plus, times, division, absolute, maximum, element, binary relations; post result, solution set and optima are compared with unbounded arithmetic. Exhaustive over the alphabet, not over 2^32.",
   note="harness built with overflow checks off (as a release build); many families of defects at the limits are listed as known findings", ref="DESIGN.md §4 C16"),
 "C18": dict(cat="exploration", engine="brancher-sweep", technique="bounded exhaustive enumeration of all selector pairs and composite branchers x configurations x models, decisions observed in the engine",
   text="All 14x14 selector pairs constructible through the public API plus default, dynamic and alternating branchers x 3 configurations (restarts forced) x models over all domain shapes, complete iteration; every proposed decision is over the brancher's variables and undecided; no decision only when all its variables are fixed; terminates with fully fixed solutions.",
   note="MostConstrained is not constructible through the public API; decisions are read through the tap", ref="DESIGN.md §4 C18"),
 "C08": dict(cat="exploration", engine="cumulative-sweep", technique="bounded exhaustive enumeration of task sets x all 144 option combinations",
   text="All 2-task sets, 3- and 4-task families (two-profile, long-profile, gap, decision-profile, negative-anchor and strided medium sets, half of them around time 0) over small alphabets of start domains/views, durations, usages and capacities under ALL 144 CumulativeOptions; the iterated solution set must equal the time-point reference semantics.",
   note="time-point semantics as documented; zero-duration tasks never run", ref="DESIGN.md §4 C08"),
 "C17": dict(cat="model_checking", engine="script-explorer", technique="deviation-bounded exhaustive exploration of decision scripts (controlled scheduler) on the real solver with explanation tap",
   text="For every model all decision scripts with a bounded number of deviations are executed; every propagation reason (eager and lazy, at propagation time and as re-computed in conflict analysis) and every conflict explanation is checked by exhaustion against the reference constraint it is tagged with. States = decision points, transitions = decisions.",
   note="tap is read-only (lazy nogood reasons via non-mutating accessor); entailment decided by brute force over declared domains", ref="DESIGN.md §4 C17"),
}

NOT_YET = {}

def main():
    heads = subprocess.run(["git", "-C", "/repo", "log", "--format=%h %s"], capture_output=True, text=True).stdout.splitlines()
    hook_commits = [l.split()[0] for l in heads if l.split(" ", 1)[1].startswith("verif hook")]
    checks = []
    for pid in ALL:
        if pid not in CHECKS:
            continue
        c = CHECKS[pid]
        checks.append({
            "property_id": pid,
            "quick_cmd": f"./check {pid} quick",
            "thorough_cmd": f"./check {pid} thorough",
            "evidence_file": f"/verif/evidence/{pid}.json",
            "replay_cmd_template": f"./check {pid} quick --replay {{path}}",
            "engine": c["engine"],
            "level_claimed": {"category": c["cat"], "text": c["text"], "design_ref": c["ref"]},
            "level_note": c["note"],
            "technique": c["technique"],
        })
    na = []
    for pid in ALL:
        if pid not in CHECKS:
            na.append({"property_id": pid, "reason": NOT_YET.get(pid, "check not built yet in this round (bounded exhaustive exploration applies; see DESIGN.md §4) - not claimed")})
    engines = {}
    for pid, c in CHECKS.items():
        engines.setdefault(c["engine"], []).append(pid)
    m = {
        "version": 1,
        "setup_cmd": "cd /verif/harness && CARGO_NET_OFFLINE=true cargo build --release --offline",
        "hooks": {
            "guard": "--cfg pumpkin_verif",
            "enable": "RUSTFLAGS='--cfg pumpkin_verif' via /verif/harness/.cargo/config.toml (the harness crate path-depends on /repo/pumpkin-solver and /repo/drcp-format, so every ./check rebuilds them from /repo's working tree with the hooks on)",
            "baseline_off_cmd": "cd /repo && cargo nextest run --workspace --no-fail-fast --tool-config-file pb:/w/lib/nextest.toml --profile pb --test-threads 8 --offline",
            "source_commits": hook_commits,
            "add_only": True,
        },
        "engines": [{"name": k, "path": "/verif/harness", "serves_properties": sorted(v), "kind_free_text": "Rust harness `pv` (bounded exhaustive exploration of the real code in sharded worker processes)"} for k, v in engines.items()],
        "checks": checks,
        "not_applicable": na,
        "notes": "All checks: ./check <ID> <quick|thorough>. Known findings: /verif/known_findings.json. Seeded defects: /verif/seeded/.",
    }
    json.dump(m, open("/verif/MANIFEST.json", "w"), indent=1)
    print(f"claimed={len(checks)} not_applicable={len(na)} hook_commits={hook_commits}")

if __name__ == "__main__":
    main()
