#!/usr/bin/env python3
"""Generates /verif/MANIFEST.json from the table below (kept next to the code so that the
manifest never drifts from what ./check implements)."""
import json, subprocess

ALL = [f"C{i:02d}" for i in range(1, 21)]

CHECKS = {
 "C01": dict(cat="exploration", engine="model-sweep", technique="bounded exhaustive enumeration of models x configurations x branchers on the real solver, brute-force reference oracle",
   text="Every model of the bounded spaces M1/M2/M3 is solved through every solution-producing API (satisfy, iterator, assumptions, both optimisation procedures incl. callbacks) under a slice of configurations and branchers; each returned assignment is checked against the reference semantics. Exhaustive within the stated bounds.",
   note="small-scope hypothesis (<=5 variables, <=4 values); reference model self-checked; division denominators exclude 0", ref="DESIGN.md §4 C01"),
 "C02": dict(cat="exploration", engine="model-sweep", technique="bounded exhaustive enumeration + learned-nogood entailment check through the tap",
   text="Same enumeration; post errors and Unsatisfiable verdicts are compared with brute force, Unknown never occurs, and every nogood learned (observed through the tap, in satisfy runs and in every step of a complete iteration) must be entailed by the model (plus blocking clauses so far).",
   note="as C01; the tap only copies what the solver computed", ref="DESIGN.md §4 C02"),
 "C03": dict(cat="exploration", engine="model-sweep", technique="bounded exhaustive enumeration, complete iteration compared with brute-force solution set",
   text="Complete iteration of every model under each configuration/brancher yields exactly the reference solution set, each solution once; every prefix is checked.",
   note="as C01", ref="DESIGN.md §4 C03"),
 "C08": dict(cat="exploration", engine="cumulative-sweep", technique="bounded exhaustive enumeration of task sets x all 144 option combinations",
   text="All 2-task sets (and a 3-task family) over small alphabets of start domains/views, durations, usages and capacities under ALL 144 CumulativeOptions; the iterated solution set must equal the time-point reference semantics.",
   note="time-point semantics as documented; zero-duration tasks never run", ref="DESIGN.md §4 C08"),
 "C17": dict(cat="model_checking", engine="script-explorer", technique="deviation-bounded exhaustive exploration of decision scripts (controlled scheduler) on the real solver with explanation tap",
   text="For every model all decision scripts with a bounded number of deviations are executed; every propagation reason (eager and lazy, at propagation time and as re-computed in conflict analysis) and every conflict explanation is checked by exhaustion against the reference constraint it is tagged with. States = decision points, transitions = decisions.",
   note="tap is read-only (lazy nogood reasons via non-mutating accessor); entailment decided by brute force over declared domains", ref="DESIGN.md §4 C17"),
}

NOT_YET = {}

def main():
    heads = subprocess.run(["git", "-C", "/repo", "log", "--format=%h %s"], capture_output=True, text=True).stdout.splitlines()
    hook_commits = [l.split()[0] for l in heads if l.split(" ", 1)[1].startswith("verif hook")]
    checks = []
    for pid in ALL:
        if pid not in CHECKS:
            continue
        c = CHECKS[pid]
        checks.append({
            "property_id": pid,
            "quick_cmd": f"./check {pid} quick",
            "thorough_cmd": f"./check {pid} thorough",
            "evidence_file": f"/verif/evidence/{pid}.json",
            "replay_cmd_template": f"./check {pid} quick --replay {{path}}",
            "engine": c["engine"],
            "level_claimed": {"category": c["cat"], "text": c["text"], "design_ref": c["ref"]},
            "level_note": c["note"],
            "technique": c["technique"],
        })
    na = []
    for pid in ALL:
        if pid not in CHECKS:
            na.append({"property_id": pid, "reason": NOT_YET.get(pid, "check not built yet in this round (bounded exhaustive exploration applies; see DESIGN.md §4) - not claimed")})
    engines = {}
    for pid, c in CHECKS.items():
        engines.setdefault(c["engine"], []).append(pid)
    m = {
        "version": 1,
        "setup_cmd": "cd /verif/harness && CARGO_NET_OFFLINE=true cargo build --release --offline",
        "hooks": {
            "guard": "--cfg pumpkin_verif",
            "enable": "RUSTFLAGS='--cfg pumpkin_verif' via /verif/harness/.cargo/config.toml (the harness crate path-depends on /repo/pumpkin-solver and /repo/drcp-format, so every ./check rebuilds them from /repo's working tree with the hooks on)",
            "baseline_off_cmd": "cd /repo && cargo nextest run --workspace --no-fail-fast --tool-config-file pb:/w/lib/nextest.toml --profile pb --test-threads 8 --offline",
            "source_commits": hook_commits,
            "add_only": True,
        },
        "engines": [{"name": k, "path": "/verif/harness", "serves_properties": sorted(v), "kind_free_text": "Rust harness `pv` (bounded exhaustive exploration of the real code in sharded worker processes)"} for k, v in engines.items()],
        "checks": checks,
        "not_applicable": na,
        "notes": "All checks: ./check <ID> <quick|thorough>. Known findings: /verif/known_findings.json. Seeded defects: /verif/seeded/.",
    }
    json.dump(m, open("/verif/MANIFEST.json", "w"), indent=1)
    print(f"claimed={len(checks)} not_applicable={len(na)} hook_commits={hook_commits}")

if __name__ == "__main__":
    main()
