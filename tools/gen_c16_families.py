#!/usr/bin/env python3
"""Regenerates the C16 known-finding families (one entry per violation kind x constraint kind x
class, classes at-limits / overflowing only) from the VIOLATION-SIG lines of a quick and a thorough
run on the unchanged tree. Run by hand when the boundary alphabet changes; never at check time.
Also writes /verif/known_c16_inputs.json (the failing inputs per tier and signature, as index ranges)
from the files that recording runs leave in /verif/.build/c16rec:
  rm -rf .build/c16rec; mkdir -p .build/c16rec
  PV_C16_RECORD=/verif/.build/c16rec ./check C16 quick > q.log; PV_C16_RECORD=/verif/.build/c16rec ./check C16 thorough > t.log
  tools/gen_c16_families.py q.log t.log
usage: gen_c16_families.py <log> [<log> ...]"""
import json, sys, re, glob
K = '/verif/known_findings.json'
k = json.load(open(K))
sigs = {}
for log in sys.argv[1:]:
    for line in open(log):
        m = re.match(r'\s+(VIOLATION-SIG|known) x(\d+) (\S+)', line)
        if m:
            # (inputs that are not listed yet carry a marked signature: normalise it)
            name = m.group(3).replace('!input-not-listed', '').replace('@', ':')
            sigs[name] = sigs.get(name, 0) + int(m.group(2))
examples = {}
for f in sorted(glob.glob('/verif/replays/C16/*.json')):
    d = json.load(open(f)); v = d.get('violation', d)
    s = v.get('sig')
    if s and s not in examples:
        examples[s] = (v.get('case', ''), v.get('msg', ''))
fams = {}
for s, n in sigs.items():
    parts = s.split(':')
    cls, kind = parts[-1], parts[-2]
    if cls not in ('at-limits', 'overflowing'):
        print('NOT LISTED (class %s): %s x%d' % (cls, s, n)); continue
    prefix = ':'.join(parts[:2]) if s.startswith('panic@') else parts[0]
    key = (prefix, ':%s:%s' % (kind, cls))
    ex = examples.get(s)
    cur = fams.get(key)
    if cur is None or (cur[1] is None and ex):
        fams[key] = (n + (cur[0] if cur else 0), ex)
    else:
        fams[key] = (cur[0] + n, cur[1])
keep = [f for f in k['findings'] if f['property'] != 'C16']
old = {(f['sig'], f['sig_contains'][0]): f for f in k['findings'] if f['property'] == 'C16'}
new = []
for (prefix, contains), (n, ex) in sorted(fams.items()):
    cls = contains.split(':')[-1]; kind = contains.split(':')[-2]
    if (prefix, contains) in old:
        new.append(old[(prefix, contains)]); continue
    what = '32-bit arithmetic near the limits (%s): %s: %s' % (cls, kind, prefix)
    if ex:
        what += ' e.g. %s -> %s' % (ex[0].split(' || ')[0][:200], ex[1][:220])
    new.append({'property': 'C16', 'status': 'open', 'sig': prefix, 'sig_contains': [contains], 'what': what})
k['findings'] = keep + new
json.dump(k, open(K, 'w'), indent=1)
print('C16 families: %d (was %d)' % (len(new), len(old)))

# ---- listed inputs: ranges of failing case indices per tier and signature ----
import os
REC = '/verif/.build/c16rec'
if os.path.isdir(REC):
    per = {'quick': {}, 'thorough': {}}
    for fn in glob.glob(REC + '/*.txt'):
        for line in open(fn):
            tier, sig, idx = line.rstrip('\n').split('\t')
            if sig.endswith(':interior'):
                continue
            per[tier].setdefault(sig, set()).add(int(idx))
    out = {}
    for tier, m in per.items():
        out[tier] = {}
        for sig, idxs in sorted(m.items()):
            xs = sorted(idxs); rs = []
            for x in xs:
                if rs and x == rs[-1][1] + 1: rs[-1][1] = x
                else: rs.append([x, x])
            out[tier][sig] = rs
    json.dump(out, open('/verif/known_c16_inputs.json', 'w'), separators=(',', ':'))
    print('listed inputs:', {t: sum(sum(b - a + 1 for a, b in rs) for rs in m.values()) for t, m in out.items()},
          'ranges:', {t: sum(len(rs) for rs in m.values()) for t, m in out.items()})
