#!/bin/bash
# Re-applies every stored seed to /repo and runs the quick check of its property: every seed must
# be reported (rc=1). usage: tools/recheck_seeds.sh [name-prefix]
cd /verif
for d in seeded/${1:-}*/; do
  name=$(basename $d)
  id=${name:0:3}
  out=$(tools/try_seed.sh /verif/$d/patch.diff $id 2>&1 | grep -E "^== " | tr '\n' ' ')
  echo "$name $out"
done
