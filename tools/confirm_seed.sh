#!/bin/bash
# usage: confirm_seed.sh <worktree> <seed-name>
# Confirms a seeded defect produced by a sub-agent: the repo's test suite still passes with the
# change, the demonstration fails with it and passes without it. Copies it to /verif/seeded/<name>.
WT="$1"; NAME="$2"; OUT=/verif/seeded/$NAME
set -u
cd "$WT" || exit 2
[ -f SEEDED/patch.diff ] || { echo "no patch"; exit 2; }
# start from a clean source tree (keep SEEDED/)
git checkout -q -- . 2>/dev/null; git clean -q -fd -- pumpkin-solver drcp-format 2>/dev/null
git apply SEEDED/patch.diff || { echo "patch does not apply"; exit 2; }
SUITE=$(cargo nextest run --workspace --no-fail-fast --offline --test-threads 8 2>&1 | grep -E "Summary|FAIL \[" | sort -u | tr '\n' ' ')
bash SEEDED/demo/run.sh > /tmp/confirm_$NAME.with.log 2>&1; WITH=$?
git checkout -q -- . ; git clean -q -fd -- pumpkin-solver drcp-format 2>/dev/null
bash SEEDED/demo/run.sh > /tmp/confirm_$NAME.without.log 2>&1; WITHOUT=$?
git checkout -q -- . ; git clean -q -fd -- pumpkin-solver drcp-format 2>/dev/null
mkdir -p "$OUT"; cp -r SEEDED/patch.diff SEEDED/demo "$OUT"/
python3 - "$OUT" "$SUITE" "$WITH" "$WITHOUT" <<'PY'
import json,sys
out,suite,w,wo=sys.argv[1:5]
try: m=json.load(open('SEEDED/meta.json'))
except Exception as e: m={"error":str(e)}
m["confirmed_by_main"]={"suite_with_change":suite,"demo_exit_with_change":int(w),"demo_exit_without_change":int(wo)}
json.dump(m,open(out+'/meta.json','w'),indent=1)
PY
echo "$NAME: suite=[$SUITE] demo_with=$WITH demo_without=$WITHOUT"
